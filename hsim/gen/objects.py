"""Object-message builders for the scene generator (C14).

Bodies are built with the repo's own Message/Block + serializer (as its tests do) and serialised
once; the stub then frames and sends the bytes itself.  Only IDs / parents / kinds vary.
"""
from __future__ import annotations

import struct
from typing import List, Optional, Sequence, Tuple

_C = {}

OBJECT_UPDATE_COMPRESSED_DATA = (
    b"\x12\x12\x10\xbf\x16XB~\x8f\xb4\xfb\x00\x1a\xcd\x9b\xe5\xd2\x04\x00\x00\t\x00\xcdG\x00\x00"
    b"\x03\x00\x00\x00\x1cB\x00\x00\x1cB\xcd\xcc\xcc=\xedG,"
    b"B\x9e\xb1\x9eBff\xa0A\x00\x00\x00\x00\x00\x00\x00\x00["
    b"\x8b\xf8\xbe\xc0\x00\x00\x00k\x9b\xc4\xfe3\nOa\xbb\xe2\xe4\xb2C\xac7\xbd\x00\x00\x00\x00"
    b"\x00\x00\x00\x00\x00\x00\xa2=\x010\x00\x11\x00\x00\x00\x89UgG$\xcbC\xed\x92\x0bG\xca\xed"
    b"\x15F_@ \x00\x00\x00\x00d\x96\x00\x00\x00\x00\x00\x00\x00\x00\x00\x00\x00\x00\x00\x00\x00"
    b"\x00?\x00\x00\x00\x1c\x9fJoI\x8dH\xa0\x9d\xc4&''\x19=g\x00\x00\x00\x003\x00ff\x86\xbf"
    b"\x00ff\x86?\x00\x00\x00\x00\x00\x00\x00\x00\x00\x00\x00\x00\x00\x00\x00\x00\x89UgG$\xcbC"
    b"\xed\x92\x0bG\xca\xed\x15F_\x10\x00\x00\x003\x00\x01\x01\x00\x00\x00\x00\xdb\x0f\xc9@\xa6"
    b"\x9b\xc4="
)
TE = (b'\x89UgG$\xcbC\xed\x92\x0bG\xca\xed\x15F_\x00\x00\x00\x00\x00\x00\x00\x00\x80?\x00\x00'
      b'\x00\x80?\x00\x00\x00\x00\x00\x00\x00\x00\x00\x00\x00\x00\x00\x00\x00\x00\x00\x00\x00'
      b'\x00\x00\x00\x00\x00\x00\x00\x00\x00\x00\x00\x00\x00')


def _ser():
    if "ser" not in _C:
        from hippolyzer.lib.base.message.udpserializer import UDPMessageSerializer
        _C["ser"] = UDPMessageSerializer()
    return _C["ser"]


def full_id(n: int):
    from hippolyzer.lib.base.datatypes import UUID
    return UUID(int=0xF000000000000000000000000000 + n)


def _body(msg) -> bytes:
    """msgnum + blocks (plain) of a repo-built message."""
    raw = bytes(_ser().serialize(msg))
    return raw[6:]


def object_update_body(handle: int, entries: Sequence[Tuple[int, int, int]], salt: int = 0, text: bytes = b"") -> bytes:
    """entries: (local id, full id number, parent local id). `salt` perturbs a property so that a
    repeated update is a real change."""
    from hippolyzer.lib.base.datatypes import Vector3
    from hippolyzer.lib.base.message.message import Block, Message
    from hippolyzer.lib.base.templates import PCode
    blocks = []
    for entry in entries:
        local, full, parent = entry[:3]
        pcode = PCode.AVATAR if len(entry) > 3 and entry[3] == "av" else PCode.PRIMITIVE
        b = Block(
            "ObjectData", ID=local, FullID=full_id(full), PCode=pcode, Scale=Vector3(0.5, 0.5, 0.5),
            UpdateFlags=268568894, PathCurve=16, ParentID=parent, ProfileCurve=1, PathScaleX=100, PathScaleY=100,
            NameValue=None, Text=text, TextureEntry=TE, TextColor=b'\x00\x00\x00\x00', ExtraParams=b'\x00', CRC=1000 + salt,
            Material=salt & 0x7, fill_missing=True)
        blocks.append(b)
    msg = Message("ObjectUpdate", Block("RegionData", RegionHandle=handle, TimeDilation=123), *blocks)
    for b in msg["ObjectData"]:
        b.serialize_var("ObjectData", (60, {
            'Position': (1.0 + salt, 2.0, 3.0), 'Velocity': (0.0, 0.0, 0.0), 'Acceleration': (0.0, 0.0, 0.0),
            'Rotation': (0.0, 0.0, 0.0, 1.0), 'AngularVelocity': (0.0, 0.0, 0.0)}))
    return _body(msg)


def _compressed_template():
    if "ctmpl" not in _C:
        from hippolyzer.lib.base.message.message import Block
        b = Block("ObjectData", UpdateFlags=0, Data=OBJECT_UPDATE_COMPRESSED_DATA)
        b.message_name = "ObjectUpdateCompressed"
        _C["ctmpl"] = b.deserialize_var("Data")
    import copy
    return copy.deepcopy(_C["ctmpl"])


def object_update_compressed_body(handle: int, entries: Sequence[Tuple[int, int, int]], salt: int = 0) -> bytes:
    from hippolyzer.lib.base.datatypes import Vector3
    from hippolyzer.lib.base.message.message import Block, Message
    from hippolyzer.lib.base.templates import CompressedFlags
    from hippolyzer.lib.base.templates import PCode
    blocks = []
    for entry in entries:
        local, full, parent = entry[:3]
        d = _compressed_template()
        d["PCode"] = PCode.AVATAR if len(entry) > 3 and entry[3] == "av" else PCode.PRIMITIVE
        d["FullID"] = full_id(full)
        d["ID"] = local
        d["CRC"] = 1000 + salt
        d["Position"] = Vector3(1.0 + salt, 2.0, 3.0)
        if parent:
            d["ParentID"] = parent
            d["Flags"] = d["Flags"] | CompressedFlags.PARENT_ID
        else:
            d["ParentID"] = None
            d["Flags"] = d["Flags"] & ~CompressedFlags.PARENT_ID
        blocks.append(Block("ObjectData", UpdateFlags=0, Data_=d))
    msg = Message("ObjectUpdateCompressed", Block("RegionData", RegionHandle=handle, TimeDilation=1), *blocks)
    return _body(msg)


def terse_update_body(handle: int, locals_: Sequence[int], salt: int = 0) -> bytes:
    from hippolyzer.lib.base.datatypes import Quaternion, Vector3
    from hippolyzer.lib.base.message.message import Block, Message
    blocks = [Block('ObjectData', Data_={
        'ID': local, 'State': 0, 'FootCollisionPlane': None, 'Position': Vector3(-2 - salt, -3, -4),
        'Velocity': Vector3(0, 0, 0), 'Acceleration': Vector3(0, 0, 0), 'Rotation': Quaternion(0, 0, 0, 1),
        'AngularVelocity': Vector3(0, 0, 0)}, TextureEntry_=None) for local in locals_]
    msg = Message('ImprovedTerseObjectUpdate', Block('RegionData', RegionHandle=handle, TimeDilation=65345), *blocks)
    return _body(msg)


def cached_update_body(handle: int, entries: Sequence[Tuple[int, int]]) -> bytes:
    from hippolyzer.lib.base.message.message import Block, Message
    blocks = [Block("ObjectData", ID=local, CRC=crc, UpdateFlags=4321) for local, crc in entries]
    msg = Message('ObjectUpdateCached', Block("RegionData", TimeDilation=102, RegionHandle=handle), *blocks)
    return _body(msg)


def kill_body(locals_: Sequence[int]) -> bytes:
    # KillObject: High 16, ObjectData Variable { ID U32 }
    return b"\x10" + bytes([len(locals_)]) + b"".join(struct.pack("<I", x) for x in locals_)


def properties_body(fulls: Sequence[int], family: bool = False, salt: int = 0) -> bytes:
    from hippolyzer.lib.base.message.message import Block, Message
    if family:
        msg = Message("ObjectPropertiesFamily",
                      Block("ObjectData", RequestFlags=0, ObjectID=full_id(fulls[0]), Name=f"fam{salt}",
                            Description="d", fill_missing=True))
    else:
        msg = Message("ObjectProperties", *[
            Block("ObjectData", ObjectID=full_id(f), Name=f"obj{f}-{salt}", Description="d", TextureID=b"",
                  fill_missing=True) for f in fulls])
    return _body(msg)


def region_handshake_body(name: str = "simtown") -> bytes:
    from hippolyzer.lib.base.datatypes import UUID
    from hippolyzer.lib.base.message.message import Block, Message
    msg = Message("RegionHandshake",
                  Block("RegionInfo", SimName=name, CacheID=UUID(int=77), fill_missing=True),
                  Block("RegionInfo2", fill_missing=True),
                  Block("RegionInfo3", fill_missing=True))
    return _body(msg)


def disable_simulator_body() -> bytes:
    from hsim.gen import messages as G
    return G.templates().get_template_by_name("DisableSimulator").freq_num_bytes

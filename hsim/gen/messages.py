"""Template-driven message generator with its own little-endian encoder.

Reads only the *parsed template* (names, types, sizes, block kinds) from the repo; the bytes
are produced here, so the stub endpoints' traffic does not depend on the repo's serializer.
"""
from __future__ import annotations

import random
import struct
from typing import Dict, List, Optional, Tuple

_CACHE: Dict[str, object] = {}

# Messages the proxy itself interprets; generated only on purpose, never as random filler.
CONTROL = {"UseCircuitCode", "CloseCircuit", "DisableSimulator", "PacketAck", "StartPingCheck",
           "AgentMovementComplete", "RegionHandshake", "LogoutRequest", "KickUser"}
# Object-tracking inputs: random content makes the object manager originate traffic / log handler errors
OBJECT_MSGS = {"ObjectUpdate", "ObjectUpdateCompressed", "ObjectUpdateCached", "ImprovedTerseObjectUpdate",
               "KillObject", "ObjectProperties", "ObjectPropertiesFamily", "ObjectSelect", "ObjectDeselect",
               "RequestMultipleObjects", "RequestObjectPropertiesFamily"}
# Handled by name cache / parcel / xfer managers etc: random bodies only cause logged handler errors.


def templates():
    if "dict" not in _CACHE:
        from hippolyzer.lib.base.message.template_dict import DEFAULT_TEMPLATE_DICT
        from hippolyzer.lib.base.message.message_dot_xml import MessageDotXML
        _CACHE["dict"] = DEFAULT_TEMPLATE_DICT
        xml = MessageDotXML()
        names = sorted(t.name for t in DEFAULT_TEMPLATE_DICT.template_list)
        _CACHE["names"] = names
        _CACHE["udp_banned"] = sorted(n for n in names if not xml.validate_udp_msg(n))
        _CACHE["udp_ok"] = sorted(n for n in names if xml.validate_udp_msg(n))
    return _CACHE["dict"]


def all_names() -> List[str]:
    templates()
    return _CACHE["names"]  # type: ignore


def udp_banned() -> List[str]:
    templates()
    return _CACHE["udp_banned"]  # type: ignore


def filler_names(inbound: bool) -> List[str]:
    key = f"filler_{inbound}"
    if key not in _CACHE:
        templates()
        pool = _CACHE["udp_ok"] if inbound else _CACHE["names"]
        _CACHE[key] = [n for n in pool if n not in CONTROL and n not in OBJECT_MSGS]  # type: ignore
    return _CACHE[key]  # type: ignore


_FLOATS = [0.0, 1.0, -1.0, 0.5, 255.0, 1e-3, -123.456, 3.4e38, 1e-38, 65535.0]


def _f32(rng):
    if rng.random() < 0.5:
        return rng.choice(_FLOATS)
    return struct.unpack("<f", struct.pack("<f", rng.uniform(-1000, 1000)))[0]


def _text(rng, maxlen):
    kind = rng.random()
    n = rng.randint(0, min(maxlen, 24))
    alphabet = "abc XYZ019_-é世"
    s = "".join(rng.choice(alphabet) for _ in range(n)).encode("utf8")[:max(0, maxlen - 1)]
    # cut may have split a multibyte char; normalise
    s = s.decode("utf8", "ignore").encode("utf8")
    if kind < 0.75:
        return s + b"\x00"         # ordinary NUL-terminated text
    if kind < 0.85:
        return s                   # no terminator
    if kind < 0.95:
        return b""                 # empty
    return bytes(rng.randrange(1, 256) for _ in range(min(maxlen, rng.randint(1, 8))))  # binary junk


def gen_var(rng: random.Random, var, tricky_text: bool = False) -> bytes:
    from hippolyzer.lib.base.message.msgtypes import MsgType as T
    t = var.type
    if t == T.MVT_FIXED:
        return bytes(rng.randrange(256) for _ in range(var.size))
    if t == T.MVT_VARIABLE:
        maxlen = 255 if var.size == 1 else 600
        if var.size == 1 and rng.random() < (0.08 if tricky_text else 0.01):
            # a value that fills, or nearly fills, what its one-byte length prefix can describe
            n = rng.choice([255, 255, 254, 253])
            data = (b"n" * (n - 1) + b"\x00") if rng.random() < 0.6 else bytes(rng.randrange(1, 256) for _ in range(n))
            return struct.pack("<B", n) + data
        if var.probably_text or rng.random() < 0.3:
            data = _text(rng, maxlen)
            if tricky_text and rng.random() < 0.5:
                k = rng.random()
                base = data.rstrip(b"\x00")
                if k < 0.35:
                    data = base + b"\x00\x00"            # two terminators
                elif k < 0.55:
                    data = base[:2] + b"\x00" + base[2:] + b"\x00"  # embedded NUL
                elif k < 0.75:
                    data = base + b"\xff\xfe\x00"        # invalid UTF-8, terminated
                elif k < 0.9:
                    data = base                          # missing terminator
                else:
                    data = b"\x00"
                data = data[:maxlen]
        else:
            data = bytes(rng.randrange(256) for _ in range(rng.randint(0, 40)))
        return struct.pack("<B" if var.size == 1 else "<H", len(data)) + data
    if t == T.MVT_U8:
        return struct.pack("<B", rng.randrange(256))
    if t == T.MVT_S8:
        return struct.pack("<b", rng.randrange(-128, 128))
    if t == T.MVT_BOOL:
        return struct.pack("<B", rng.randrange(2))
    if t == T.MVT_U16:
        return struct.pack("<H", rng.randrange(1 << 16))
    if t == T.MVT_S16:
        return struct.pack("<h", rng.randrange(-(1 << 15), 1 << 15))
    if t == T.MVT_U32:
        return struct.pack("<I", rng.choice([0, 1, 0xFFFFFFFF, rng.randrange(1 << 32)]))
    if t == T.MVT_S32:
        return struct.pack("<i", rng.randrange(-(1 << 31), 1 << 31))
    if t == T.MVT_U64:
        return struct.pack("<Q", rng.randrange(1 << 64))
    if t == T.MVT_S64:
        return struct.pack("<q", rng.randrange(-(1 << 63), 1 << 63))
    if t == T.MVT_F32:
        return struct.pack("<f", _f32(rng))
    if t == T.MVT_F64:
        return struct.pack("<d", rng.choice(_FLOATS + [1e300, rng.uniform(-1e6, 1e6)]))
    if t == T.MVT_LLVector3:
        return struct.pack("<3f", _f32(rng), _f32(rng), _f32(rng))
    if t == T.MVT_LLVector3d:
        return struct.pack("<3d", rng.uniform(-1e5, 1e5), rng.uniform(-1e5, 1e5), rng.uniform(0, 4096))
    if t == T.MVT_LLVector4:
        return struct.pack("<4f", _f32(rng), _f32(rng), _f32(rng), _f32(rng))
    if t == T.MVT_LLQuaternion:
        return struct.pack("<3f", rng.uniform(-0.5, 0.5), rng.uniform(-0.5, 0.5), rng.uniform(-0.5, 0.5))
    if t == T.MVT_LLUUID:
        return bytes(rng.randrange(256) for _ in range(16))
    if t == T.MVT_IP_ADDR:
        return bytes([10, rng.randrange(256), rng.randrange(256), rng.randrange(1, 255)])
    if t == T.MVT_IP_PORT:
        return struct.pack("!H", rng.randrange(1, 65536))
    raise ValueError(t)


def gen_blocks(rng: random.Random, tmpl, tricky_text=False, overrides: Optional[dict] = None,
               max_repeat: int = 3, omit_trailing: bool = False) -> bytes:
    """Bytes of all blocks of `tmpl` (after msgnum+extra). `overrides[(block, var)] = bytes`."""
    from hippolyzer.lib.base.message.msgtypes import MsgBlockType as B
    out = bytearray()
    blocks = list(tmpl.blocks)
    if omit_trailing and len(blocks) >= 2 and blocks[-1].block_type == B.MBT_SINGLE:
        blocks = blocks[:-1]
    for blk in blocks:
        if blk.block_type == B.MBT_SINGLE:
            n = 1
        elif blk.block_type == B.MBT_MULTIPLE:
            n = blk.number
        else:
            n = rng.randint(0, max_repeat)
            if overrides and any(k[0] == blk.name for k in overrides):
                n = max(n, 1)
            out.append(n)
        for _ in range(n):
            for var in blk.variables:
                ov = overrides.get((blk.name, var.name)) if overrides else None
                if ov is not None:
                    out += ov
                else:
                    out += gen_var(rng, var, tricky_text)
    return bytes(out)


def gen_body(rng: random.Random, name: str, extra: bytes = b"", **kw) -> bytes:
    """msgnum + extra + blocks (plain, not zero-coded)."""
    tmpl = templates().get_template_by_name(name)
    blocks = gen_blocks(rng, tmpl, **kw)
    return tmpl.freq_num_bytes + extra + blocks


def use_circuit_code_body(code: int, session_id_bytes: bytes, agent_id_bytes: bytes) -> bytes:
    tmpl = templates().get_template_by_name("UseCircuitCode")
    return tmpl.freq_num_bytes + struct.pack("<I", code) + session_id_bytes + agent_id_bytes


def var_str(s, size=1) -> bytes:
    # (bytes are taken as they are: text in another encoding, or cut mid-character, with or without terminator)
    data = s if isinstance(s, bytes) else s.encode("utf8") + b"\x00"
    return struct.pack("<B" if size == 1 else "<H", len(data)) + data


def chat_from_viewer_body(agent_id: bytes, session_id: bytes, text: str, channel: int = 0, typ: int = 1) -> bytes:
    tmpl = templates().get_template_by_name("ChatFromViewer")
    return (tmpl.freq_num_bytes + agent_id + session_id + var_str(text, 2) + struct.pack("<B", typ)
            + struct.pack("<i", channel))


def chat_from_simulator_body(text: str, from_name="obj", source_id=b"\x11" * 16, owner_id=b"\x22" * 16,
                             source_type=2, chat_type=8, audible=1) -> bytes:
    tmpl = templates().get_template_by_name("ChatFromSimulator")
    return (tmpl.freq_num_bytes + var_str(from_name, 1) + source_id + owner_id
            + struct.pack("<B", source_type) + struct.pack("<B", chat_type) + struct.pack("<B", audible)
            + struct.pack("<3f", 1.0, 2.0, 3.0) + var_str(text, 2))

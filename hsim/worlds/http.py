"""HTTP world: both OS processes of Hippolyzer's HTTP side in one virtual loop.

Real: SLMITMAddon / IPCInterceptionAddon (request / responseheaders / response hooks,
_pump_callbacks), MITMProxyEventManager.run(), HippoHTTPFlow, mitmproxy HTTPFlow/Request/Response
(intercept / resume / wait_for_resume / get_state / set_state), SessionManager / Session /
ProxiedRegion / EventQueueManager, AddonManager.
Stub: mitmproxy's protocol core reduced to its documented hook order per flow, the viewer's HTTP
client, the simulator's HTTP origin, the two multiprocessing queues (pickling SimQueues with latency).
"""
from __future__ import annotations

import asyncio
import random
from typing import Any, Callable, Dict, List, Optional

from hsim.core.env import SimEnv
from hsim.core.ipc import _MPShim, make_flow_context_cls
from hsim.worlds.udp import uuid_bytes


class FlowRecord:
    def __init__(self, idx: int, spec: dict):
        self.idx = idx
        self.spec = spec
        self.flow = None
        self.id: Optional[str] = None
        self.events: List[tuple] = []
        self.upstream: Optional[dict] = None      # what the origin saw
        self.result: Optional[dict] = None        # what the viewer got
        self.done: Optional[asyncio.Future] = None
        self.resume_calls = 0
        self.streamed = False
        self.error: Optional[str] = None

    def ev(self, name, t, **kw):
        self.events.append((name, t, kw))


class HttpWorld:
    def __init__(self, env: SimEnv, cfg: dict, addons: Optional[list] = None, logger=None, sm=None):
        import hippolyzer.lib.proxy.sessions as sessions_mod
        from hippolyzer.lib.proxy.addons import AddonManager
        from hippolyzer.lib.proxy.http_event_manager import MITMProxyEventManager
        from hippolyzer.lib.proxy.http_proxy import SLMITMAddon
        from hippolyzer.lib.proxy.sessions import SessionManager
        from hippolyzer.lib.proxy.settings import ProxySettings
        from hippolyzer.lib.proxy.task_scheduler import TaskScheduler

        self.env = env
        self.cfg = cfg
        self.loop = env.loop
        lat_rng = random.Random(cfg.get("latency_seed", 1))
        scale = cfg.get("queue_latency", 0.0)

        def lat():
            if not scale:
                return 0.0
            r = lat_rng.random()
            return 0.0 if r < 0.3 else round(lat_rng.random() * scale, 5)
        if sm is None:
            env._patch(sessions_mod, "HTTPFlowContext", make_flow_context_cls(env.loop, lat, lat))
            env._patch(sessions_mod, "multiprocessing", _MPShim())
            self.settings = ProxySettings()
            self.sm = SessionManager(self.settings)
            self.sm.message_logger = logger
            env._patch(AddonManager, "SCHEDULER", TaskScheduler())
            AddonManager.init([], self.sm, addon_objects=list(addons or []))
        else:
            # ride on an existing session manager (e.g. a UdpWorld's): one proxy, both producers
            self.sm = sm
            self.settings = sm.settings
            sm.flow_context.from_proxy_queue.latency = lat
            sm.flow_context.to_proxy_queue.latency = lat
        self.addon_manager = AddonManager
        self.flow_context = self.sm.flow_context
        self.mitm_addon = SLMITMAddon(self.flow_context)
        self.event_manager = MITMProxyEventManager(self.sm, self.flow_context)
        self.flows: List[FlowRecord] = []
        self.live_flows: Dict[str, Any] = {}       # the protocol layer holds a strong ref to each live flow
        self.origin: Callable = self.default_origin
        self.sessions: List[dict] = []
        # observation of the two queues
        self.to_proxy_log: List[dict] = []
        self.from_proxy_log: List[dict] = []
        self.pump_call = 0
        self.in_pump: Optional[int] = None
        self.flow_context.to_proxy_queue.on_put = self._on_to_proxy
        self.flow_context.from_proxy_queue.on_put = self._on_from_proxy
        self.flow_context.from_proxy_queue.on_get = self._on_main_get
        self.main_log: List[dict] = []    # what the main process did, in the order it did it
        self._wrap_pump()

    # ---- instrumentation ---------------------------------------------------------
    def _wrap_pump(self):
        em = self.event_manager
        orig = em.pump_proxy_event
        world = self

        async def pump():
            world.pump_call += 1
            world.in_pump = world.pump_call
            try:
                return await orig()
            finally:
                world.in_pump = None
        em.pump_proxy_event = pump

    def _on_to_proxy(self, t, item):
        self.to_proxy_log.append({"t": t, "type": item[0], "flow_id": item[1], "state": item[2], "pump": self.in_pump})

    def _on_main_get(self, t, item):
        self.main_log.append({"what": "event", "t": t, "type": item[0], "flow_id": item[1]["id"]})

    def _on_from_proxy(self, t, item):
        self.from_proxy_log.append({"t": t, "type": item[0], "flow_id": item[1]["id"], "state": item[1]})

    # ---- boot -------------------------------------------------------------------------
    def start(self):
        async def _boot():
            self.em_task = self.loop.create_task(self.event_manager.run())
            self.mitm_addon.running()
        t = self.loop.create_task(_boot())
        self.loop.run_sim(until=self.loop.time() + 0.0005)
        assert t.done() and t.exception() is None, t

    def shutdown(self):
        """Let both polling loops leave through their shutdown signal (the mitm-side pump swallows
        task cancellation with a bare except)."""
        import mitmproxy.ctx

        class _Master:
            def shutdown(self_inner):
                pass
        old = getattr(mitmproxy.ctx, "master", None)
        mitmproxy.ctx.master = _Master()
        try:
            self.flow_context.shutdown_signal.set()
            self.loop.run_sim(until=self.loop.time() + 0.004, max_iterations=20000)
        finally:
            mitmproxy.ctx.master = old

    def login(self, sidx: int, region_specs: List[dict]):
        """create_session() exactly as _handle_login_flow does with the login response."""
        from hippolyzer.lib.base.datatypes import UUID
        from hippolyzer.lib.proxy.addons import AddonManager
        first = region_specs[0]
        sess = self.sm.create_session({
            "session_id": str(UUID(bytes=uuid_bytes(0xA0 + sidx, 1))),
            "secure_session_id": str(UUID(bytes=uuid_bytes(0xB0 + sidx, 2))),
            "agent_id": str(UUID(bytes=uuid_bytes(0xC0 + sidx, 3))),
            "circuit_code": 1000 + sidx,
            "sim_ip": first["addr"][0], "sim_port": first["addr"][1],
            "region_x": first["handle"] >> 32, "region_y": first["handle"] & 0xFFFFFFFF,
            "seed_capability": first["seed"],
        })
        AddonManager.handle_session_init(sess)
        sess.pending = False
        for spec in region_specs[1:]:
            sess.register_region(spec["addr"], handle=spec["handle"], seed_url=spec["seed"])
        self.sessions.append({"idx": sidx, "session": sess, "regions": region_specs})
        return sess

    # ---- origin -------------------------------------------------------------------------
    def default_origin(self, record: FlowRecord, request):
        import mitmproxy.http
        return mitmproxy.http.Response.make(200, b"<llsd><map /></llsd>", {"Content-Type": "application/llsd+xml"})

    # ---- the protocol core, per flow -------------------------------------------------------
    def request(self, spec: dict) -> FlowRecord:
        """spec: method, url, content (bytes), headers (dict). Returns a record whose .done resolves
        when the viewer got (or lost) the response."""
        rec = FlowRecord(len(self.flows), spec)
        self.flows.append(rec)
        rec.done = self.loop.create_future()
        self.loop.create_task(self._run_flow(rec))
        return rec

    async def _run_flow(self, rec: FlowRecord):
        import mitmproxy.http
        from mitmproxy.test import tflow
        spec = rec.spec
        loop = self.loop
        try:
            req = mitmproxy.http.Request.make(spec.get("method", "GET"), spec["url"], spec.get("content", b""),
                                              dict(spec.get("headers") or {}))
            flow = tflow.tflow(req=req)
            rec.flow = flow
            rec.id = flow.id
            self.live_flows[flow.id] = flow
            orig_resume = flow.resume

            def counting_resume():
                if flow.intercepted:
                    rec.resume_calls += 1
                    rec.ev("resumed", loop.time())
                return orig_resume()
            flow.resume = counting_resume
            # --- request hook
            self.mitm_addon.request(flow)
            rec.ev("request_hook", loop.time(), intercepted=flow.intercepted)
            await flow.wait_for_resume()
            rec.ev("request_done", loop.time())
            if flow.response is None:
                rec.upstream = {"url": flow.request.url, "content": bytes(flow.request.content or b""),
                                "headers": dict(flow.request.headers), "method": flow.request.method}
                delay = spec.get("origin_delay", 0.0)
                if delay:
                    await asyncio.sleep(delay)
                resp = self.origin(rec, flow.request)
                if asyncio.iscoroutine(resp):
                    resp = await resp
                if flow.response is None:
                    flow.response = resp
                else:
                    rec.ev("preempted", loop.time())     # an answer was put in while the origin was thinking
                rec.ev("origin", loop.time(), status=resp.status_code)
            # --- responseheaders + response hooks (also run for responses injected at request time)
            self.mitm_addon.responseheaders(flow)
            rec.streamed = bool(flow.response.stream)
            # (mitmproxy runs the response hook for streamed responses too, once the stream has finished)
            self.mitm_addon.response(flow)
            rec.ev("response_hook", loop.time(), intercepted=flow.intercepted)
            await flow.wait_for_resume()
            rec.ev("response_done", loop.time())
            resp = flow.response
            lost = bool(spec.get("lose_response"))
            rec.result = {"status": resp.status_code, "headers": dict(resp.headers), "content": bytes(resp.content or b""),
                          "lost": lost, "t": loop.time(), "metadata": dict(flow.metadata)}
        except asyncio.CancelledError:
            rec.error = "cancelled"
            raise
        except Exception as e:   # a failure of the stub core itself
            rec.error = repr(e)
        finally:
            self.live_flows.pop(rec.id, None)
            if not rec.done.done():
                rec.done.set_result(rec)

"""UDP proxy world: the real SOCKS5 server + InterceptingLLUDPProxyProtocol + SessionManager +
AddonManager on the virtual loop, with stub viewers / regions on a SimNet.

Real: SLSOCKS5Server.handle_connection (greeting, UDP ASSOCIATE), UDPProxyProtocol /
InterceptingLLUDPProxyProtocol, SOCKS5UDPTransport, SessionManager/Session/ProxiedRegion,
ProxiedCircuit, AddonManager dispatch, object manager, (optional) message logger, resend task.
Stub: viewer (TCP control stream + UDP), region endpoints, the network, the clock.
"""
from __future__ import annotations

import asyncio
import struct
from typing import Any, Callable, Dict, List, Optional, Tuple

from hsim.core.env import SimEnv
from hsim.core.ipc import _MPShim, make_flow_context_cls
from hsim.core.net import Addr, Fate, SimStreamTransport
from hsim.stubs import lludp as L

PROXY_IP = "10.0.0.1"


def uuid_bytes(tag: int, n: int) -> bytes:
    return bytes([tag]) + n.to_bytes(3, "big") + bytes([tag ^ 0x5A]) * 12


class Arrival:
    """One datagram delivered to a proxy UDP association."""
    __slots__ = ("idx", "t", "assoc", "src", "raw", "emissions", "escaped", "meta")

    def __init__(self, idx, t, assoc, src, raw):
        self.idx = idx
        self.t = t
        self.assoc = assoc
        self.src = src
        self.raw = raw
        self.emissions: List["Emission"] = []
        self.escaped: Optional[BaseException] = None
        self.meta: Dict[str, Any] = {}


class Emission:
    """One datagram the proxy handed to its UDP transport."""
    __slots__ = ("idx", "t", "assoc", "dst", "raw", "cause", "meta")

    def __init__(self, idx, t, assoc, dst, raw, cause):
        self.idx = idx
        self.t = t
        self.assoc = assoc
        self.dst = dst
        self.raw = raw
        self.cause: Optional[Arrival] = cause
        self.meta: Dict[str, Any] = {}


class Endpoint:
    """Shared bookkeeping for stub endpoints: own packet-ID counters per flow."""

    def __init__(self, world: "UdpWorld", addr: Addr):
        self.world = world
        self.addr = addr
        self.next_pid: Dict[Any, int] = {}
        self.sent: Dict[Any, List[dict]] = {}
        self.received: List[dict] = []
        self.rx_reliable_unacked: Dict[Any, List[int]] = {}
        self.rx_reliable_all: Dict[Any, List[int]] = {}

    def alloc_pid(self, flow) -> int:
        pid = self.next_pid.get(flow, 1)
        self.next_pid[flow] = pid + 1
        return pid

    def pick_acks(self, flow, n: int, reack: bool = False) -> List[int]:
        pool = self.rx_reliable_all.get(flow, []) if reack else self.rx_reliable_unacked.get(flow, [])
        picked = pool[:n]
        if not reack:
            self.rx_reliable_unacked[flow] = pool[n:]
        return list(picked)

    def note_rx(self, flow, parsed: L.Parsed):
        if parsed.flags & L.RELIABLE:
            self.rx_reliable_unacked.setdefault(flow, []).append(parsed.pid)
            lst = self.rx_reliable_all.setdefault(flow, [])
            if parsed.pid not in lst:
                lst.append(parsed.pid)


class ViewerStub(Endpoint):
    def __init__(self, world, idx: int, ip: str):
        super().__init__(world, (ip, 40000 + idx))
        self.idx = idx
        self.ctrl_addr = (ip, 30000 + idx)
        self.reader: Optional[asyncio.StreamReader] = None
        self.ctrl_rx = bytearray()
        self.proxy_udp: Optional[Addr] = None
        self.state = "new"
        self.server_task = None
        self.transport: Optional[SimStreamTransport] = None
        self.session_idx: Optional[int] = None

    # --- SOCKS5 control connection -------------------------------------------------
    def connect(self):
        loop = self.world.env.loop
        self.reader = asyncio.StreamReader(loop=loop)
        protocol = asyncio.StreamReaderProtocol(self.reader, loop=loop)
        self.transport = SimStreamTransport(loop, self.ctrl_addr, self._on_ctrl_data)
        self.transport.set_protocol(protocol)
        writer = asyncio.StreamWriter(self.transport, protocol, self.reader, loop)
        self.ctrl_rx = bytearray()
        self.proxy_udp = None
        self.state = "greeting"
        self.server_task = loop.create_task(self.world.server.handle_connection(self.reader, writer))
        self.reader.feed_data(b"\x05\x01\x00")

    def _on_ctrl_data(self, data: bytes):
        self.ctrl_rx += data
        if self.state == "greeting" and len(self.ctrl_rx) >= 2:
            assert bytes(self.ctrl_rx[:2]) == b"\x05\x00", bytes(self.ctrl_rx)
            del self.ctrl_rx[:2]
            self.state = "associating"
            # UDP ASSOCIATE, IPv4 0.0.0.0:0
            self.reader.feed_data(b"\x05\x03\x00\x01\x00\x00\x00\x00\x00\x00")
        if self.state == "associating" and len(self.ctrl_rx) >= 10:
            ver, code, _, atyp = struct.unpack("!BBBB", bytes(self.ctrl_rx[:4]))
            assert (ver, code, atyp) == (5, 0, 1), bytes(self.ctrl_rx)
            import socket
            ip = socket.inet_ntoa(bytes(self.ctrl_rx[4:8]))
            port = struct.unpack("!H", bytes(self.ctrl_rx[8:10]))[0]
            del self.ctrl_rx[:10]
            self.proxy_udp = (ip, port)
            self.state = "ready"
            self.world.on_viewer_ready(self)

    def disconnect(self):
        if self.reader is not None and self.state != "closed":
            self.reader.feed_eof()
            self.state = "closed"

    # --- UDP ----------------------------------------------------------------------
    def send_payload(self, region_addr: Addr, payload: bytes, fate: Optional[Fate] = None,
                     wrapper: Optional[Callable[[Addr, bytes], bytes]] = None):
        if self.proxy_udp is None:
            return False
        data = (wrapper or L.socks_wrap)(region_addr, payload)
        self.world.net.send(self.addr, self.proxy_udp, data, fate)
        return True

    def datagram_received(self, data: bytes, src: Addr):
        rec = {"t": self.world.env.loop.time(), "src": src, "raw": data}
        try:
            far, payload = L.socks_unwrap(data)
            rec["far"] = far
            rec["payload"] = payload
            rec["parsed"] = L.parse_datagram(payload)
            self.note_rx(far, rec["parsed"])
        except Exception as e:
            rec["error"] = repr(e)
        self.received.append(rec)
        self.world.on_endpoint_rx(self, rec)


class RegionStub(Endpoint):
    def __init__(self, world, addr: Addr, handle: int):
        super().__init__(world, addr)
        self.handle = handle
        self.peers: List[Addr] = []  # proxy UDP addresses that talked to us, in order learnt

    def send_payload(self, dst: Addr, payload: bytes, fate: Optional[Fate] = None):
        self.world.net.send(self.addr, dst, payload, fate)

    def datagram_received(self, data: bytes, src: Addr):
        if src not in self.peers:
            self.peers.append(src)
        rec = {"t": self.world.env.loop.time(), "src": src, "raw": data}
        try:
            rec["parsed"] = L.parse_datagram(data)
            self.note_rx(src, rec["parsed"])
        except Exception as e:
            rec["error"] = repr(e)
        self.received.append(rec)
        self.world.on_endpoint_rx(self, rec)


class SessionSpec:
    def __init__(self, idx: int, region_addrs: List[Addr]):
        self.idx = idx
        self.session_id = uuid_bytes(0xA0 + idx, 1)
        self.secure_session_id = uuid_bytes(0xB0 + idx, 2)
        self.agent_id = uuid_bytes(0xC0 + idx, 3)
        self.circuit_code = 1000 + idx
        self.region_addrs = region_addrs
        self.session = None


class UdpWorld:
    def __init__(self, env: SimEnv, cfg: dict, addons: Optional[list] = None, logger=None,
                 addon_paths: Optional[list] = None, mtime_of=None):
        import hippolyzer.lib.proxy.sessions as sessions_mod
        import hippolyzer.lib.proxy.addons as addons_mod
        from hippolyzer.lib.proxy.addons import AddonManager
        from hippolyzer.lib.proxy.lludp_proxy import SLSOCKS5Server
        from hippolyzer.lib.proxy.sessions import SessionManager
        from hippolyzer.lib.proxy.settings import ProxySettings
        from hippolyzer.lib.proxy.task_scheduler import TaskScheduler

        self.env = env
        self.net = env.net
        self.cfg = cfg
        env._patch(sessions_mod, "HTTPFlowContext", make_flow_context_cls(env.loop))
        env._patch(sessions_mod, "multiprocessing", _MPShim())
        settings = ProxySettings()
        settings.ENABLE_DEFERRED_PACKET_PARSING = bool(cfg.get("deferred", True))
        settings.ALLOW_AUTO_REQUEST_OBJECTS = bool(cfg.get("auto_request", True))
        settings.AUTOMATICALLY_REQUEST_MISSING_OBJECTS = bool(cfg.get("auto_missing", False))
        self.settings = settings
        self.sm = SessionManager(settings)
        self.sm.message_logger = logger
        env._patch(AddonManager, "SCHEDULER", TaskScheduler())
        self.addon_manager = AddonManager
        addons = list(addons or [])
        if cfg.get("builtin_addons"):
            from hippolyzer.apps.proxy import AgentUpdaterAddon, SelectionManagerAddon
            addons += [SelectionManagerAddon(), AgentUpdaterAddon()]
        if mtime_of is not None:
            # virtual file times for file-based addons (the seam the reloader reads the disk through)
            env._patch(addons_mod, "get_mtime", mtime_of)
        AddonManager.init(list(addon_paths or []), self.sm, addon_objects=addons)
        self.server = SLSOCKS5Server(self.sm)
        self._addons_mod = addons_mod

        self.viewers: List[ViewerStub] = []
        self.regions: Dict[Addr, RegionStub] = {}
        self.sessions: List[SessionSpec] = []
        self.arrivals: List[Arrival] = []
        self.emissions: List[Emission] = []
        self._current: Optional[Arrival] = None
        self.assoc_owner: Dict[Addr, ViewerStub] = {}
        self.corrupted = set()   # datagram payloads whose body the harness damaged in flight
        self.rx_hooks: List[Callable] = []
        self.ready_hooks: List[Callable] = []
        self.arrival_hooks: List[Callable[[Arrival], None]] = []   # after the proxy handled it
        self.emission_hooks: List[Callable[[Emission], None]] = []
        self.net.taps.append(self._tap)

    # ---- topology ---------------------------------------------------------------
    def viewer_ip(self, idx: int) -> str:
        return PROXY_IP if self.cfg.get("same_ip") else f"10.1.0.{idx + 2}"

    def region_addr(self, ridx: int) -> Addr:
        ip = PROXY_IP if self.cfg.get("same_ip") else f"10.2.0.{ridx + 2}"
        return (ip, 13000 + ridx) if not self.cfg.get("same_ip") else (ip, 20000 + ridx)

    def add_region(self, ridx: int) -> RegionStub:
        addr = self.region_addr(ridx)
        if addr not in self.regions:
            stub = RegionStub(self, addr, handle=((1000 + ridx) << 32) | (1000 + ridx) * 256)
            self.regions[addr] = stub
            self.net.attach(addr, stub)
        return self.regions[addr]

    def add_viewer(self, idx: int) -> ViewerStub:
        v = ViewerStub(self, idx, self.viewer_ip(idx))
        self.viewers.append(v)
        self.net.attach(v.addr, v)
        return v

    def login(self, sidx: int, region_idxs: List[int]) -> SessionSpec:
        """What MITMProxyEventManager._handle_login_flow does with the login response."""
        from hippolyzer.lib.base.datatypes import UUID
        from hippolyzer.lib.proxy.addons import AddonManager
        addrs = [self.add_region(r).addr for r in region_idxs]
        spec = SessionSpec(sidx, addrs)
        first = self.regions[addrs[0]]
        sess = self.sm.create_session({
            "session_id": str(UUID(bytes=spec.session_id)),
            "secure_session_id": str(UUID(bytes=spec.secure_session_id)),
            "agent_id": str(UUID(bytes=spec.agent_id)),
            "circuit_code": spec.circuit_code,
            "sim_ip": addrs[0][0],
            "sim_port": addrs[0][1],
            "region_x": first.handle >> 32,
            "region_y": first.handle & 0xFFFFFFFF,
            "seed_capability": f"https://sim{region_idxs[0]}.example.invalid:12043/cap/seed-{sidx}-0",
        })
        AddonManager.handle_session_init(sess)
        for k, addr in enumerate(addrs[1:], start=1):
            sess.register_region(addr, handle=self.regions[addr].handle,
                                 seed_url=f"https://sim{region_idxs[k]}.example.invalid:12043/cap/seed-{sidx}-{k}")
        spec.session = sess
        self.sessions.append(spec)
        return spec

    # ---- callbacks ----------------------------------------------------------------
    def on_viewer_ready(self, viewer: ViewerStub):
        self.assoc_owner[viewer.proxy_udp] = viewer
        for h in self.ready_hooks:
            h(viewer)

    def on_endpoint_rx(self, endpoint, rec):
        for h in self.rx_hooks:
            h(endpoint, rec)

    def _tap(self, kind, t, src, dst, data):
        if kind == "deliver" and dst in self.assoc_owner:
            a = Arrival(len(self.arrivals), t, dst, src, data)
            self.arrivals.append(a)
            self._current = a
        elif kind == "delivered" and self._current is not None and dst == self._current.assoc:
            a = self._current
            self._current = None
            for h in self.arrival_hooks:
                h(a)
        elif kind == "escaped" and self._current is not None:
            self._current.escaped = data
        elif kind == "emit" and src in self.assoc_owner:
            e = Emission(len(self.emissions), t, src, dst, data, self._current)
            self.emissions.append(e)
            if self._current is not None:
                self._current.emissions.append(e)
            for h in self.emission_hooks:
                h(e)

    # ---- helpers for oracles -------------------------------------------------------
    def proxy_protocol(self, viewer: ViewerStub):
        return self.net.endpoints.get(viewer.proxy_udp)

    def session_obj(self, sidx: int):
        return self.sessions[sidx].session

    def region_obj(self, sidx: int, addr: Addr):
        sess = self.sessions[sidx].session
        for r in sess.regions:
            if r.circuit_addr == addr:
                return r
        return None

"""Client world: the real HippoClient session / region / protocol / circuit + resend task on the
virtual loop against a stub simulator over SimNet.  The XML-RPC login and the Seed/EQ HTTP calls are
bypassed: the session is built from login data exactly as ``HippoClient.login`` does after the HTTP
round trip, and the circuit is marked alive as ``HippoClientRegion.connect`` does after the
UseCircuitCode ack.
"""
from __future__ import annotations

from typing import Any, Callable, Dict, List, Optional

from hsim.core.env import SimEnv
from hsim.core.net import Addr, Fate
from hsim.stubs import lludp as L
from hsim.worlds.udp import uuid_bytes


class _DummyHTTPSession:
    def __init__(self, *a, **kw):
        self.closed = False

    async def close(self):
        self.closed = True


class ClientArrival:
    __slots__ = ("idx", "t", "src", "raw", "parsed", "emissions", "escaped", "meta")

    def __init__(self, idx, t, src, raw):
        self.idx = idx
        self.t = t
        self.src = src
        self.raw = raw
        self.parsed: Optional[L.Parsed] = None
        self.emissions: List["ClientEmission"] = []
        self.escaped = None
        self.meta: Dict[str, Any] = {}


class ClientEmission:
    __slots__ = ("idx", "t", "dst", "raw", "parsed", "cause")

    def __init__(self, idx, t, dst, raw, cause):
        self.idx = idx
        self.t = t
        self.dst = dst
        self.raw = raw
        self.cause = cause
        try:
            self.parsed = L.parse_datagram(raw)
        except Exception:
            self.parsed = None


class SimStub:
    """The simulator endpoint: own packet-ID counter, remembers what it received."""

    def __init__(self, world: "ClientWorld", addr: Addr):
        self.world = world
        self.addr = addr
        self.next_pid = 1
        self.received: List[dict] = []
        self.rx_reliable_unacked: List[int] = []
        self.rx_reliable_all: List[int] = []
        self.sent: List[dict] = []
        self.rx_hooks: List[Callable] = []

    def alloc_pid(self) -> int:
        p = self.next_pid
        self.next_pid += 1
        return p

    def datagram_received(self, data: bytes, src: Addr):
        rec = {"t": self.world.env.loop.time(), "src": src, "raw": data}
        try:
            p = rec["parsed"] = L.parse_datagram(data)
            if p.flags & L.RELIABLE:
                self.rx_reliable_unacked.append(p.pid)
                if p.pid not in self.rx_reliable_all:
                    self.rx_reliable_all.append(p.pid)
        except Exception as e:
            rec["error"] = repr(e)
        self.received.append(rec)
        for h in self.rx_hooks:
            h(rec)

    def pick_acks(self, n: int, reack=False) -> List[int]:
        pool = self.rx_reliable_all if reack else self.rx_reliable_unacked
        picked = list(pool[:n])
        if not reack:
            del self.rx_reliable_unacked[:n]
        return picked

    def send(self, datagram: bytes, fate: Optional[Fate] = None):
        if self.world.client_addr is None:
            return
        self.world.net.send(self.addr, self.world.client_addr, datagram, fate)


class ClientWorld:
    def __init__(self, env: SimEnv, cfg: dict):
        import aiohttp
        import hippolyzer.lib.client.hippo_client as hc
        from hippolyzer.lib.base.datatypes import UUID

        self.env = env
        self.net = env.net
        self.cfg = cfg
        env._patch(aiohttp, "ClientSession", _DummyHTTPSession)
        self.hc = hc
        self.client = hc.HippoClient()
        self.sim_addr: Addr = ("10.2.0.2", 13000)
        self.session_id = uuid_bytes(0xA1, 1)
        self.agent_id = uuid_bytes(0xC1, 3)
        login_data = {
            "session_id": str(UUID(bytes=self.session_id)),
            "secure_session_id": str(UUID(bytes=uuid_bytes(0xB1, 2))),
            "agent_id": str(UUID(bytes=self.agent_id)),
            "circuit_code": 4242,
            "sim_ip": self.sim_addr[0],
            "sim_port": self.sim_addr[1],
            "region_x": 256000,
            "region_y": 256512,
            "seed_capability": "https://sim.example.invalid:12043/cap/seed",
        }
        self.client.session = hc.HippoClientSession.from_login_data(login_data, self.client)
        self.session = self.client.session
        self.sim = SimStub(self, self.sim_addr)
        self.net.attach(self.sim_addr, self.sim)
        self.client_addr: Optional[Addr] = None
        self.arrivals: List[ClientArrival] = []
        self.emissions: List[ClientEmission] = []
        self._current: Optional[ClientArrival] = None
        self.arrival_hooks: List[Callable] = []
        self.emission_hooks: List[Callable] = []
        self.net.taps.append(self._tap)

    def start(self):
        """The part of HippoClient.login() after the HTTP round trip."""
        loop = self.env.loop
        client, session = self.client, self.session

        async def _boot():
            session.transport, session.protocol = await client._create_transport()
            client._resend_task = self.hc.create_logged_task(client._attempt_resends(), "Circuit Resend")
            assert session.open_circuit(session.regions[-1].circuit_addr)
        t = loop.create_task(_boot())
        loop.run_sim(until=loop.time() + 0.001)
        assert t.done() and t.exception() is None, t
        self.client_addr = session.transport.transport.addr
        self.region = session.regions[-1]
        # what connect() does once the UseCircuitCode has been acked
        self.region.circuit.is_alive = True
        session.main_region = self.region
        if self.cfg.get("resend_every") is not None:
            self.region.circuit.resend_every = self.cfg["resend_every"]

    def shutdown(self):
        """Orderly logout so that HippoClient.__del__ has nothing left to do at GC time."""
        self.emission_hooks.clear()
        self.arrival_hooks.clear()
        try:
            self.client.logout()
        except Exception:
            pass
        self.client.http_session = None

    def _tap(self, kind, t, src, dst, data):
        if kind == "deliver" and dst == self.client_addr:
            a = ClientArrival(len(self.arrivals), t, src, data)
            try:
                a.parsed = L.parse_datagram(data)
            except Exception:
                a.parsed = None
            self.arrivals.append(a)
            self._current = a
        elif kind == "delivered" and self._current is not None and dst == self.client_addr:
            a = self._current
            self._current = None
            for h in self.arrival_hooks:
                h(a)
        elif kind == "escaped" and self._current is not None:
            self._current.escaped = data
        elif kind == "emit" and src == self.client_addr:
            e = ClientEmission(len(self.emissions), t, dst, data, self._current)
            self.emissions.append(e)
            if self._current is not None:
                self._current.emissions.append(e)
            for h in self.emission_hooks:
                h(e)

import os
import sys


def _assert_repo():
    import hippolyzer
    want = os.path.realpath(os.environ.get("VERIF_REPO", "/repo"))
    got = os.path.realpath(os.path.dirname(os.path.dirname(hippolyzer.__file__)))
    if got != want:
        print(f"HARNESS-ERROR hippolyzer imported from {got}, expected {want}")
        sys.exit(2)


def main():
    _assert_repo()
    argv = sys.argv[1:]
    if argv and argv[0] == "_digests":
        from hsim.selftest import digests_main
        return digests_main(argv[1:])
    if argv and argv[0].startswith("selftest"):
        from hsim.selftest import main as st_main
        return st_main(argv)
    from hsim.core.runner import main as run_main
    return run_main(argv)


if __name__ == "__main__":
    sys.exit(main())

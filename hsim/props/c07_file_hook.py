"""Meeting point between the file-based addon that C07 writes to a scratch directory and the harness."""
SINK = None


def record(*a):
    if SINK is not None:
        SINK(*a)

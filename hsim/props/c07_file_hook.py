"""Meeting point between the file-based addon that C07 writes to a scratch directory and the harness."""
SINK = None      # record(what, version, *a)
PRED = None      # pred(version, message) -> bool: called from the relay's subscription predicate
RELAY = None     # relay(version, session, message): the relay hands the taken copy over for re-sending


def record(*a):
    if SINK is not None:
        SINK(*a)


def pred(version, message):
    return PRED(version, message) if PRED is not None else False


def relay(version, session, message):
    if RELAY is not None:
        RELAY(version, session, message)

"""C14 - tracked world stays self-consistent under any object update / kill history.

UDP proxy world; the region stubs are a *scene generator* over a small universe (local IDs 1-8,
full IDs 1-10, two regions, link sets up to depth 3) that keeps a consistent true scene and emits
full / compressed / terse / cached updates, ObjectProperties(Family), KillObject (single, multi-block,
parents, unknown IDs), re-parenting, local-ID reuse after kill, cross-region moves and region
teardown.  The operator side issues request_objects / request_object_properties /
request_missing_objects (optionally under wait_for timeouts).  The network duplicates, reorders,
delays and drops between region and proxy.

An independent scene-graph model is applied to the *delivered* history; after every delivered
message both indices, the child / parent / orphan links and the pending-request futures of the real
object managers are compared with it.  The property's precondition (no local ID given to two live
objects, no parent cycle) is evaluated by the model on the delivered stream; when faults break it the
run stops being judged and is counted.
"""
from __future__ import annotations

import asyncio
import logging
import random
from typing import Dict, List, Optional, Set, Tuple

from hsim.core.env import SimEnv
from hsim.core.net import Fate
from hsim.core.runner import RunResult
from hsim.gen import messages as G
from hsim.gen import objects as O
from hsim.props.udp_common import Driver, WireModel, rand_fate
from hsim.stubs import lludp as L
from hsim.worlds.udp import Arrival, UdpWorld

PROPERTY = "C14"
CHUNK = {"quick": 12, "thorough": 30}
PROBES = ["regionless_object_whose_region_became_tracked", "object_moved_to_untracked_region", "regionless_object_picked_up_again", "region_tracked_again_after_teardown", "observer_notified", "avatar_child_announced", "seat_killed_under_avatar", "avatar_orphan_survives_kill_of_unknown_seat",
          "orphan_adopted", "cascade_depth_2", "local_id_reuse_after_kill", "cross_region_move",
          "kill_unknown_with_orphans", "pending_both_kinds_on_killed_object", "same_object_twice_in_one_message",
          "reparent", "kill_of_parent", "teardown_with_pending", "precondition_broken", "duplicate_update_delivered",
          "two_updates_same_instant_with_pending_future", "timeout_cancelled_future", "local_id_changed_same_region",
          "futures_resolved_by_update", "properties_reply_resolved"]
COMPONENTS = {
    "real": ["ProxyWorldObjectManager / ClientWorldObjectManager handlers (ObjectUpdate, Compressed, Terse, Cached, "
             "KillObject, ObjectProperties[Family])", "ProxyObjectManager / ClientObjectManager.request_objects / "
             "request_object_properties / request_missing_objects", "RegionObjectsState (indices, parent/child/orphan links, "
             "request futures)", "normalize_object_update* (base/objects.py)", "InterceptingLLUDPProxyProtocol datagram path, "
             "RegionHandshake / DisableSimulator handling", "MessageHandler / Event"],
    "stub": ["simulator scene generator", "network", "operator issuing object requests", "viewer (SOCKS + UseCircuitCode only)"],
}
ASSUMPTIONS = [
    "seated avatars (PCode AVATAR children) are modelled the way the code and the reference viewer treat them: a "
    "cascading kill skips them and what hangs off them; they stay tracked as orphans of the killed seat",
    "the precondition of the property is evaluated on the delivered history; runs where duplication/reordering/loss "
    "break it stop being judged from that point (counted as precondition_broken)",
    "an update from a region that is not tracked (gone, or not there yet) naming an object that lives in a tracked region "
    "moves it into no region at all, which the code documents as intended: such an object is out of every comparison "
    "until a tracked region announces it again, where it must be tracked like any other; the same update naming a live "
    "parent or a seated avatar, and ObjectProperties for a regionless object, end the judging of the run (counted)",
    "child order is not judged (only set equality, no duplicates, both directions)",
    "an update that changes nothing is not required to resolve pending requests",
]

N_LOCALS = 8
N_FULLS = 10


# ----------------------------------------------------------------------------------------
# plan generation: the generator keeps a consistent *true* scene
# ----------------------------------------------------------------------------------------
def gen_plan(rng: random.Random, tier: str) -> dict:
    big = tier == "thorough"
    lossy = rng.random() < 0.65
    cfg = {
        "deferred": rng.random() < 0.8,
        "same_ip": False,
        "n_viewers": 1,
        "regions": [[0, 1]],
        "auto_request": rng.random() < 0.5,
        # let the proxy request objects it only heard about through cached / terse updates (0.2 s debounce timer)
        "auto_missing": rng.random() < 0.3,
        # seated avatars: children that the code (like the reference viewer) exempts from cascading kills
        "avatars": rng.random() < 0.35,
        # other parties watching the scene: an addon's object hooks and a subscriber of the object event stream,
        # failing on a pseudo-random subset of notifications - the bookkeeping must not notice
        "observers": rng.choice([None, None, "observe", "raise", "raise"]),
        "observer_seed": rng.randrange(1 << 30),
        "p_delay": rng.choice([0.0, 0.3, 0.6]) if lossy else 0.0,
        "p_dup": rng.choice([0.0, 0.1, 0.25]) if lossy else 0.0,
        "p_drop": rng.choice([0.0, 0.0, 0.05]) if lossy else 0.0,
        "tail": 1.0,
    }
    scene: List[Dict[int, Tuple[int, int]]] = [dict(), dict()]   # region -> local -> (full, parent)
    where: Dict[int, Tuple[int, int]] = {}                        # full -> (region, local)
    alive = [True, True]
    pending_parents: List[Set[int]] = [set(), set()]              # locals named as parent but not yet announced
    ever_killed: List[Set[int]] = [set(), set()]
    avatars: List[Set[int]] = [set(), set()]      # local ids that are avatars (never given children)
    steps = []
    t = 0.3
    salt = 0
    n = rng.randint(4, 60 if big else 32)

    def fate():
        return rand_fate(rng, cfg["p_delay"], cfg["p_dup"], cfg["p_drop"], 0.03)

    def depth(r, local):
        d = 0
        seen = set()
        while local and local in scene[r] and local not in seen:
            seen.add(local)
            local = scene[r][local][1]
            d += 1
        return d

    def descendants(r, local):
        out = []
        stack = [local]
        while stack:
            x = stack.pop()
            for l2, (f2, p2) in scene[r].items():
                if p2 == x and l2 not in out and l2 != local:
                    out.append(l2)
                    stack.append(l2)
        return out

    for _ in range(n):
        t = round(t + rng.choice([0.0, 0.0, 0.001, 0.01, 0.05, 0.2]), 4)
        dead = [r for r in (0, 1) if not alive[r]]
        if dead and rng.random() < 0.35:
            # the agent comes back to a region it had left: circuit re-opened, handshake, scene announced afresh
            r = rng.choice(dead)
            alive[r] = True
            steps.append({"at": t, "op": "revive", "r": r})
            t = round(t + 0.1, 4)
            continue
        if dead and rng.random() < 0.12:
            # a straggler of a region that is gone (or an update that beats the handshake of a region coming back) names
            # an object that meanwhile lives in the other region: the code moves it to the unknown region ("regionless",
            # by design); when a tracked region announces it again it has to be picked up there like any other object
            r = rng.choice(dead)
            o = 1 - r
            leafs = [l for l in scene[o] if not any(p == l for (_f, p) in scene[o].values()) and l not in avatars[o]]
            if alive[o] and leafs:
                local = rng.choice(leafs)
                full, _p = scene[o].pop(local)
                where.pop(full, None)
                salt += 1
                steps.append({"at": t, "op": "upd", "r": r, "form": rng.choice(["full", "compressed"]),
                              "entries": [[rng.randint(1, N_LOCALS), full, 0]], "salt": salt, "fate": {}, "stale": True})
                if rng.random() < 0.7:
                    t = round(t + rng.choice([0.001, 0.01, 0.05]), 4)
                    free = [l for l in range(1, N_LOCALS + 1) if l not in scene[o]]
                    if free:
                        nl = rng.choice(free)
                        avatars[o].discard(nl)
                        scene[o][nl] = (full, 0)
                        where[full] = (o, nl)
                        salt += 1
                        steps.append({"at": t, "op": "upd", "r": o, "form": rng.choice(["full", "compressed"]),
                                      "entries": [[nl, full, 0]], "salt": salt, "fate": fate()})
                continue
        live = [r for r in (0, 1) if alive[r]]
        if not live:
            break
        r = rng.choice(live)
        x = rng.random()
        salt += 1
        free_locals = [l for l in range(1, N_LOCALS + 1) if l not in scene[r]]
        free_fulls = [f for f in range(1, N_FULLS + 1) if f not in where]
        if x < 0.32 and free_locals and free_fulls:
            # announce 1-3 new objects, possibly children of known / not-yet-announced parents
            k = rng.randint(1, min(3, len(free_locals), len(free_fulls)))
            entries = []
            for _k in range(k):
                local = rng.choice(free_locals)
                free_locals.remove(local)
                full = rng.choice(free_fulls)
                free_fulls.remove(full)
                cands = [l for l in scene[r] if depth(r, l) < 3 and l not in avatars[r]]
                y = rng.random()
                if y < 0.4 or (not cands and not free_locals):
                    parent = 0
                elif y < 0.8 and cands:
                    parent = rng.choice(cands)
                elif free_locals:
                    parent = rng.choice(free_locals)       # parent announced later (orphan)
                    pending_parents[r].add(parent)
                else:
                    parent = 0
                scene[r][local] = (full, parent)
                where[full] = (r, local)
                if cfg["avatars"] and parent and rng.random() < 0.35:
                    avatars[r].add(local)
                    entries.append([local, full, parent, "av"])
                else:
                    avatars[r].discard(local)
                    entries.append([local, full, parent])
            if rng.random() < 0.1 and entries:
                entries.append(list(entries[0]))            # same object twice in one message
            steps.append({"at": t, "op": "upd", "r": r, "form": rng.choice(["full", "full", "compressed"]),
                          "entries": entries, "salt": salt, "fate": fate()})
        elif x < 0.40 and pending_parents[r]:
            # the awaited parent finally shows up
            local = rng.choice(sorted(pending_parents[r]))
            pending_parents[r].discard(local)
            if local in scene[r] or not free_fulls:
                continue
            full = rng.choice(free_fulls)
            scene[r][local] = (full, 0)
            where[full] = (r, local)
            avatars[r].discard(local)
            steps.append({"at": t, "op": "upd", "r": r, "form": rng.choice(["full", "compressed"]),
                          "entries": [[local, full, 0]], "salt": salt, "fate": fate()})
        elif x < 0.50 and scene[r]:
            # update of an existing object: changed property, re-parent, or exact repeat
            local = rng.choice(sorted(scene[r]))
            full, parent = scene[r][local]
            y = rng.random()
            if y < 0.45:
                cands = [l for l in scene[r] if l != local and l not in descendants(r, local) and depth(r, l) < 3
                         and l not in avatars[r]]
                parent = rng.choice(cands + [0]) if cands else 0
                scene[r][local] = (full, parent)
            repeat = y > 0.85
            ent = [local, full, parent, "av"] if local in avatars[r] else [local, full, parent]
            steps.append({"at": t, "op": "upd", "r": r, "form": rng.choice(["full", "compressed"]),
                          "entries": [ent], "salt": (salt - 1 if repeat else salt), "fate": fate()})
            if rng.random() < 0.15:
                steps.append({"at": t, "op": "upd", "r": r, "form": "full", "entries": [list(ent)],
                              "salt": salt + 1000, "fate": {}})
        elif x < 0.58 and (scene[r] or rng.random() < 0.3):
            known = sorted(scene[r])
            locals_ = rng.sample(known, min(len(known), rng.randint(1, 2))) if known else []
            if rng.random() < 0.25:
                locals_.append(rng.randint(1, N_LOCALS))
            if not locals_:
                continue
            steps.append({"at": t, "op": rng.choice(["terse", "cached"]), "r": r, "locals": locals_, "salt": salt,
                          "crc_match": rng.random() < 0.5, "fate": fate()})
        elif x < 0.72 and (scene[r] or pending_parents[r] or rng.random() < 0.2):
            # kill: a leaf, a parent (cascade), an unknown id, an awaited parent, several at once
            pool = sorted(scene[r])
            locals_ = []
            y = rng.random()
            if y < 0.6 and pool:
                locals_.append(rng.choice(pool))
            elif y < 0.75 and pending_parents[r]:
                locals_.append(rng.choice(sorted(pending_parents[r])))
            else:
                locals_.append(rng.randint(1, N_LOCALS))
            if rng.random() < 0.25 and pool:
                locals_.append(rng.choice(pool))
            for local in locals_:
                if local in scene[r]:
                    for d_ in descendants(r, local) + [local]:
                        if d_ in scene[r] and (d_ == local or d_ not in avatars[r]):
                            where.pop(scene[r][d_][0], None)
                            del scene[r][d_]
                            ever_killed[r].add(d_)
                            avatars[r].discard(d_)
                else:
                    # orphans waiting for it die with it
                    for l2 in [l for l, (f, p) in scene[r].items() if p == local and l not in avatars[r]]:
                        for d_ in descendants(r, l2) + [l2]:
                            if d_ in scene[r] and d_ not in avatars[r]:
                                where.pop(scene[r][d_][0], None)
                                del scene[r][d_]
                                ever_killed[r].add(d_)
                    pending_parents[r].discard(local)
            steps.append({"at": t, "op": "kill", "r": r, "locals": locals_, "fate": fate()})
        elif x < 0.78 and scene[r] and alive[1 - r]:
            # cross-region move of a childless object
            leafs = [l for l in scene[r] if not any(p == l for (_f, p) in scene[r].values()) and l not in avatars[r]]
            dst_free = [l for l in range(1, N_LOCALS + 1) if l not in scene[1 - r]]
            if not leafs or not dst_free:
                continue
            local = rng.choice(leafs)
            full, _p = scene[r].pop(local)
            new_local = rng.choice(dst_free)
            avatars[1 - r].discard(new_local)
            scene[1 - r][new_local] = (full, 0)
            where[full] = (1 - r, new_local)
            steps.append({"at": t, "op": "upd", "r": 1 - r, "form": "full", "entries": [[new_local, full, 0]],
                          "salt": salt, "fate": fate(), "move": True})
        elif x < 0.84:
            fulls = [f for f, (rr, _l) in where.items() if rr == r]
            pick = rng.sample(fulls, min(len(fulls), 2)) if fulls and rng.random() < 0.8 else [rng.randint(1, N_FULLS)]
            steps.append({"at": t, "op": "props", "r": r, "fulls": pick, "family": rng.random() < 0.3, "salt": salt,
                          "fate": fate()})
        elif x < 0.955:
            kind = rng.choice(["objects", "objects", "props", "missing"])
            pool = sorted(scene[r]) + sorted(pending_parents[r]) + [rng.randint(1, N_LOCALS)]
            locals_ = sorted(set(rng.sample(pool, min(len(pool), rng.randint(1, 2)))))
            steps.append({"at": t, "op": "req", "r": r, "kind": kind, "locals": locals_,
                          "timeout": rng.choice([None, None, 0.0, 0.02, 0.3])})
        else:
            alive[r] = False
            for local, (full, _p) in list(scene[r].items()):
                where.pop(full, None)
            scene[r].clear()
            avatars[r].clear()
            pending_parents[r].clear()
            steps.append({"at": t, "op": "teardown", "r": r})
    t = round(t + 0.5, 4)
    for r in (0, 1):
        if alive[r]:
            steps.append({"at": t, "op": "teardown", "r": r})
    return {"property": PROPERTY, "cfg": cfg, "steps": steps}


def simplify_step(step):
    if step.get("fate"):
        yield {**step, "fate": {}}
    if step.get("op") == "upd" and len(step["entries"]) > 1:
        for i in range(len(step["entries"])):
            yield {**step, "entries": step["entries"][:i] + step["entries"][i + 1:]}
    if step.get("op") == "upd" and step.get("form") == "compressed":
        yield {**step, "form": "full"}
    if step.get("op") in ("kill", "req", "terse", "cached") and len(step.get("locals", [])) > 1:
        for i in range(len(step["locals"])):
            yield {**step, "locals": step["locals"][:i] + step["locals"][i + 1:]}
    if step.get("op") == "req" and step.get("timeout") is not None:
        yield {**step, "timeout": None}
    if step.get("op") == "props" and step.get("family"):
        yield {**step, "family": False}


def simplify_plan(plan):
    cfg = plan["cfg"]
    if not cfg.get("deferred"):
        yield {**plan, "cfg": {**cfg, "deferred": True}}
    if cfg.get("auto_request"):
        yield {**plan, "cfg": {**cfg, "auto_request": False}}
    if cfg.get("observers"):
        yield {**plan, "cfg": {**cfg, "observers": None}}


# ----------------------------------------------------------------------------------------
# independent reference model of the scene graph
# ----------------------------------------------------------------------------------------
class SceneModel:
    def __init__(self):
        self.regions: Dict[int, Dict[int, List[int]]] = {}   # ridx -> local -> [full, parent, is_avatar]
        self.where: Dict[int, Tuple[int, int]] = {}           # full -> (ridx, local)
        self.limbo: Dict[int, int] = {}                       # full -> untracked region it was last announced by
        self.broken: Optional[str] = None

    def track_region(self, r):
        self.regions.setdefault(r, {})

    def descendants(self, r, local) -> List[int]:
        out: List[int] = []
        stack = [local]
        objs = self.regions[r]
        while stack:
            x = stack.pop()
            for l2, (f2, p2, av2) in objs.items():
                if p2 == x and l2 not in out and l2 != local:
                    if av2:
                        continue     # a seated avatar (and whatever hangs off it) survives its seat's kill
                    out.append(l2)
                    stack.append(l2)
        return out

    def _cycle(self, r, local) -> bool:
        seen = set()
        objs = self.regions[r]
        while local and local in objs:
            if local in seen:
                return True
            seen.add(local)
            local = objs[local][1]
        return False

    def apply_update(self, r, entries, probes) -> List[Tuple[int, int]]:
        """Returns [(region, local)] of objects *created* by this message."""
        created = []
        if r not in self.regions:
            # an update from a region that is not tracked (gone, or not there yet). New objects are ignored; an object
            # that lives elsewhere leaves that region and belongs to no tracked region ("regionless", which the code
            # does on purpose): it is out of every comparison until a tracked region announces it again
            for entry in entries:
                full = entry[1]
                if full in self.where:
                    r0, l0 = self.where.pop(full)
                    if any(p2 == l0 for (_f2, p2, _a2) in self.regions[r0].values()) or self.regions[r0][l0][2]:
                        self.broken = "update from an untracked region names a live parent or avatar"
                        return created
                    del self.regions[r0][l0]
                    self.limbo[full] = r
                    probes("object_moved_to_untracked_region")
                elif full in self.limbo:
                    self.limbo[full] = r
            return created
        objs = self.regions[r]
        for entry in entries:
            local, full, parent = entry[:3]
            av = len(entry) > 3 and entry[3] == "av"
            if full in self.limbo:
                if self.limbo[full] in self.regions:
                    probes("regionless_object_whose_region_became_tracked")
                if local in objs:
                    self.broken = "local id given to two live objects (move)"
                    return created
                del self.limbo[full]
                objs[local] = [full, parent, av]
                self.where[full] = (r, local)
                probes("regionless_object_picked_up_again")
            elif full in self.where:
                r0, l0 = self.where[full]
                if r0 != r:
                    probes("cross_region_move")
                    del self.regions[r0][l0]
                    if local in objs and objs[local][0] != full:
                        self.broken = "local id given to two live objects (move)"
                        return created
                    objs[local] = [full, parent, av]
                    self.where[full] = (r, local)
                elif l0 != local:
                    probes("local_id_changed_same_region")
                    if local in objs and objs[local][0] != full:
                        self.broken = "local id given to two live objects (renumber)"
                        return created
                    del objs[l0]
                    objs[local] = [full, parent, av]
                    self.where[full] = (r, local)
                else:
                    if objs[local][1] != parent:
                        probes("reparent")
                    objs[local][1] = parent
                    objs[local][2] = av      # an object is of the kind it was last announced as
            else:
                if local in objs:
                    self.broken = "local id given to two live objects"
                    return created
                objs[local] = [full, parent, av]
                self.where[full] = (r, local)
                created.append((r, local))
            if parent == local or self._cycle(r, local):
                self.broken = "parent cycle"
                return created
        return created

    def apply_kill(self, r, locals_, probes) -> List[int]:
        """Returns every local id whose pending requests must have been cancelled."""
        touched: List[int] = []
        if r not in self.regions:
            return touched
        objs = self.regions[r]
        for local in locals_:
            touched.append(local)
            if local in objs:
                desc = self.descendants(r, local)
                if any(p == local and av_ for (f, p, av_) in objs.values()):
                    probes("seat_killed_under_avatar")
                if desc:
                    probes("kill_of_parent")
                    if any(objs[d][1] != local for d in desc):
                        probes("cascade_depth_2")
                for d in desc + [local]:
                    self.where.pop(objs[d][0], None)
                    del objs[d]
                    touched.append(d)
            else:
                if any(p == local and av_ for (f, p, av_) in objs.values()):
                    probes("avatar_orphan_survives_kill_of_unknown_seat")
                orphans = [l for l, (f, p, av_) in objs.items() if p == local and not av_]
                if orphans:
                    probes("kill_unknown_with_orphans")
                for o in orphans:
                    if o not in objs:
                        continue
                    for d in self.descendants(r, o) + [o]:
                        if d in objs:
                            self.where.pop(objs[d][0], None)
                            del objs[d]
                            touched.append(d)
        return touched

    def teardown(self, r):
        for local, (full, _p, _av) in self.regions.pop(r, {}).items():
            self.where.pop(full, None)


def run_plan(plan: dict) -> RunResult:
    res = RunResult()
    cfg = plan["cfg"]
    stopped = []

    def violate(kind, /, **d):
        if not stopped:
            res.violate(kind, **d)
            stopped.append(1)

    with SimEnv(plan.get("seed", 0), log_level=logging.ERROR) as env:
        loop = env.loop
        class HarnessObserverError(Exception):
            pass
        obs_rng = random.Random(cfg.get("observer_seed", 0))
        obs_mode = cfg.get("observers")

        def observed(where):
            res.probe("observer_notified")
            if obs_mode == "raise" and obs_rng.random() < 0.4:
                res.fault("observer_raised")
                raise HarnessObserverError(where)

        class ObserverAddon:
            def handle_object_updated(self, session_, region_, obj, updated_props, msg=None):
                observed("handle_object_updated")

            def handle_object_killed(self, session_, region_, obj):
                observed("handle_object_killed")

        world = UdpWorld(env, cfg, addons=[ObserverAddon()] if obs_mode else None)
        wmodel = WireModel(world, eager=not cfg.get("deferred", True))
        spec = world.login(0, cfg["regions"][0])
        if obs_mode:
            from hippolyzer.lib.client.object_manager import ObjectUpdateType
            for ut in ObjectUpdateType:
                spec.session.objects.events.subscribe(ut, lambda ev: observed("object event subscriber"))
        wmodel.add_session(spec)
        viewer = world.add_viewer(0)
        viewer.session_idx = 0
        viewer.connect()
        loop.run_sim(until=0.02)
        if viewer.state != "ready":
            res.violate("HARNESS/socks-handshake")
            return res
        wmodel.assoc(viewer)
        driver = Driver(world, wmodel, res)
        session = spec.session
        model = SceneModel()
        sem: Dict[tuple, tuple] = {}
        stubs = [world.regions[world.region_addr(r)] for r in (0, 1)]
        ridx_of_addr = {world.region_addr(r): r for r in (0, 1)}
        handle_of = {r: stubs[r].handle for r in (0, 1)}
        futures: List[dict] = []    # {"r","local","kind","fut","t"}
        log_mark = [0]
        state = {"judging": True, "last_upd_instant": None}

        # ---- setup traffic: circuits + RegionHandshake (fault free) ---------------------------------
        for r in (0, 1):
            loop.call_at(0.05 + 0.01 * r, driver.op_ucc, {"v": 0, "r": r})

        def handshake(r):
            stub = stubs[r]
            if viewer.proxy_udp not in stub.peers:
                return
            dg = L.build_datagram(L.RELIABLE, stub.alloc_pid(viewer.proxy_udp), 0, O.region_handshake_body(f"sim{r}"))
            sem[(r, dg)] = ("handshake", r)
            stub.send_payload(viewer.proxy_udp, dg)
        for r in (0, 1):
            loop.call_at(0.15 + 0.01 * r, handshake, r)

        def probes(name):
            res.probe(name)

        # ---- sending ops ----------------------------------------------------------------------------
        def send(r, body, meaning, fate, flags=0):
            stub = stubs[r]
            if viewer.proxy_udp not in stub.peers:
                return
            dg = L.build_datagram(flags, stub.alloc_pid(viewer.proxy_udp), 0, body)
            sem[(r, dg)] = meaning
            stub.send_payload(viewer.proxy_udp, dg, Fate.from_json(fate))

        def op_upd(st):
            r = st["r"]
            entries = [tuple(e) for e in st["entries"]]
            if len(set(e[0] for e in entries)) < len(entries):
                res.probe("same_object_twice_in_one_message")
            if st["form"] == "compressed":
                body = O.object_update_compressed_body(handle_of[r], entries, st["salt"])
            else:
                body = O.object_update_body(handle_of[r], entries, st["salt"])
            send(r, body, ("upd", r, entries, st["salt"]), st.get("fate"), flags=L.ZEROCODED)

        def op_terse(st):
            send(st["r"], O.terse_update_body(handle_of[st["r"]], st["locals"], st["salt"]),
                 ("touch", st["r"], tuple(st["locals"])), st.get("fate"))

        def op_cached(st):
            crc = 1000 + (st["salt"] if not st.get("crc_match") else 0)
            send(st["r"], O.cached_update_body(handle_of[st["r"]], [(l, crc) for l in st["locals"]]),
                 ("touch", st["r"], tuple(st["locals"])), st.get("fate"))

        def op_kill(st):
            send(st["r"], O.kill_body(st["locals"]), ("kill", st["r"], tuple(st["locals"])), st.get("fate"),
                 flags=L.RELIABLE)

        def op_props(st):
            send(st["r"], O.properties_body(st["fulls"], st.get("family"), st["salt"]),
                 ("props", st["r"], tuple(st["fulls"][:1] if st.get("family") else st["fulls"])), st.get("fate"))

        def op_teardown(st):
            send(st["r"], O.disable_simulator_body(), ("teardown", st["r"]), {}, flags=L.RELIABLE)

        def op_req(st):
            r = st["r"]
            region = world.region_obj(0, world.region_addr(r))
            if region is None or region.circuit is None or not region.circuit.is_alive or session not in world.sm.sessions:
                return
            res.fault("operator_request")
            kind = st["kind"]
            try:
                if kind == "objects":
                    locals_ = list(st["locals"])
                    futs = region.objects.request_objects(tuple(locals_))
                    ftype = "UPDATE"
                elif kind == "props":
                    locals_ = list(st["locals"])
                    futs = region.objects.request_object_properties(tuple(locals_))
                    ftype = "PROPERTIES"
                else:
                    locals_ = list(tuple(region.objects.missing_locals))
                    futs = region.objects.request_missing_objects()
                    ftype = "UPDATE"
            except Exception as e:
                return violate("C14/request/raised", exc=repr(e)[:160], req=kind)
            if len(futs) != len(locals_):
                return violate("C14/request/future-count", want=len(locals_), got=len(futs))
            for local, fut in zip(locals_, futs):
                rec = {"r": r, "local": local, "kind": ftype, "fut": fut, "t": loop.time(), "timeout": st.get("timeout")}
                futures.append(rec)
                if st.get("timeout") is not None:
                    async def waiter(f=fut, to=st["timeout"]):
                        try:
                            await asyncio.wait_for(f, to)
                        except (asyncio.TimeoutError, asyncio.CancelledError):
                            res.probe("timeout_cancelled_future")
                    loop.create_task(waiter())

        def op_revive(st):
            res.fault("region_left_and_entered_again")
            driver.op_ucc({"v": 0, "r": st["r"]})
            loop.call_later(0.03, handshake, st["r"])

        ops = {"revive": op_revive, "upd": op_upd, "terse": op_terse, "cached": op_cached, "kill": op_kill, "props": op_props,
               "teardown": op_teardown, "req": op_req}
        for i, st in enumerate(plan["steps"]):
            def _run(i=i, st=st):
                env.tr("step", i, st["op"], st.get("r"))
                env.ab(st["op"], st.get("form", ""), len(st.get("entries", st.get("locals", []))))
                if not stopped:
                    ops[st["op"]](st)
            loop.call_at(st["at"], _run)

        # ---- checking ---------------------------------------------------------------------------------
        def handler_failures():
            out = []
            recs = env.log.records
            for rec in recs[log_mark[0]:]:
                msg = str(rec.msg)
                if msg.startswith("Failed in handler") or msg.startswith("Failed in session message handler") \
                        or msg.startswith("Failed in region message handler") or msg.startswith("Barfed while handling"):
                    exc = rec.exc_info[1] if rec.exc_info else None
                    if type(exc).__name__ == "HarnessObserverError":
                        continue     # the harness's own failing observer, contained by the event dispatcher
                    out.append((msg[:60], type(exc).__name__ if exc else "?", repr(exc)[:160]))
            log_mark[0] = len(recs)
            return out

        def compare(event):
            """Real object managers vs the model."""
            world_lookup = {o.FullID: o for o in session.objects.all_objects}    # public view of the full-ID index
            want_fulls = {O.full_id(f) for f in model.where}
            got_fulls = set(world_lookup.keys()) - {O.full_id(f) for f in model.limbo}
            if got_fulls != want_fulls:
                return violate("C14/index/full-id-set", event=event,
                               missing=sorted(str(x)[-4:] for x in want_fulls - got_fulls),
                               extra=sorted(str(x)[-4:] for x in got_fulls - want_fulls))
            for r, objs in model.regions.items():
                region = world.region_obj(0, world.region_addr(r))
                st_ = region.objects.state
                got_locals = set(st_.localid_lookup.keys())
                if got_locals != set(objs.keys()):
                    return violate("C14/index/local-id-set", event=event, region=r, want=sorted(objs),
                                   got=sorted(got_locals))
                want_orphans: Dict[int, Set[int]] = {}
                for local, (full, parent, _av) in objs.items():
                    obj = st_.localid_lookup[local]
                    if obj.FullID != O.full_id(full) or obj.LocalID != local:
                        return violate("C14/index/identity", event=event, region=r, local=local,
                                       got_full=str(obj.FullID)[-4:], want_full=full)
                    if world_lookup.get(obj.FullID) is not obj:
                        return violate("C14/index/two-objects-for-one-id", event=event, region=r, local=local)
                    if region.objects.lookup_fullid(obj.FullID) is not obj or region.objects.lookup_localid(local) is not obj:
                        return violate("C14/index/lookup-disagree", event=event, region=r, local=local)
                    if (obj.ParentID or 0) != parent:
                        return violate("C14/links/parent-id", event=event, region=r, local=local, got=obj.ParentID,
                                       want=parent)
                    want_children = {l2 for l2, (_f2, p2, _a2) in objs.items() if p2 == local}
                    if len(obj.ChildIDs) != len(set(obj.ChildIDs)) or set(obj.ChildIDs) != want_children:
                        return violate("C14/links/children", event=event, region=r, local=local,
                                       got=list(obj.ChildIDs), want=sorted(want_children))
                    if [c.LocalID for c in obj.Children] != list(obj.ChildIDs):
                        return violate("C14/links/children-objects", event=event, region=r, local=local)
                    if parent and parent in objs:
                        if obj.Parent is None or obj.Parent.LocalID != parent or obj.Parent.FullID != O.full_id(objs[parent][0]):
                            return violate("C14/links/parent-object", event=event, region=r, local=local, want=parent)
                    else:
                        if obj.Parent is not None:
                            return violate("C14/links/parent-object-should-be-none", event=event, region=r, local=local)
                        if parent:
                            want_orphans.setdefault(parent, set()).add(local)
                raw_orphans = getattr(st_, "_orphans", None)
                if not hasattr(raw_orphans, "items"):
                    continue      # orphan bookkeeping refactored away: the link checks above still judge adoption
                got_orphans = {k: list(v) for k, v in raw_orphans.items() if v}
                if any(len(v) != len(set(v)) for v in got_orphans.values()) or \
                        {k: set(v) for k, v in got_orphans.items()} != want_orphans:
                    return violate("C14/links/orphans", event=event, region=r, got=got_orphans,
                                   want={k: sorted(v) for k, v in want_orphans.items()})

        def futures_must_be_done(r, locals_, before_t, why, kinds=("UPDATE", "PROPERTIES")):
            pend = [f for f in futures if f["r"] == r and f["local"] in locals_ and f["t"] <= before_t
                    and f["kind"] in kinds and not f["fut"].done()]
            if pend:
                kinds_ = sorted({f["kind"] for f in futures if f["r"] == r and f["local"] in locals_ and f["t"] <= before_t})
                violate("C14/futures/left-pending", why=why, region=r, local=pend[0]["local"], fkind=pend[0]["kind"],
                        kinds_registered=kinds_)
                return False
            return True

        def on_arrival(a: Arrival):
            if stopped:
                return
            try:
                payload = a.raw if a.src != viewer.addr else L.socks_unwrap(a.raw)[1]
            except Exception:
                return
            meaning = sem.get((ridx_of_addr.get(a.src), payload))
            if meaning is None or not state["judging"]:
                return
            kind = meaning[0]
            r = meaning[1]
            env.ab("D", kind, r)
            now = a.t
            if kind == "handshake":
                if r not in model.regions and r in torn_down:
                    res.probe("region_tracked_again_after_teardown")
                model.track_region(r)
            elif kind == "upd":
                # probes about timing
                inst = (now, r)
                locals_in = {e[0] for e in meaning[2]}
                if any(len(e) > 3 for e in meaning[2]):
                    res.probe("avatar_child_announced")
                if state["last_upd_instant"] and state["last_upd_instant"][0] == inst and \
                        state["last_upd_instant"][1] & locals_in and any(
                        f["r"] == r and f["local"] in locals_in and f["t"] < now for f in futures):
                    res.probe("two_updates_same_instant_with_pending_future")
                state["last_upd_instant"] = (inst, locals_in)
                before = {rr: set(o.keys()) for rr, o in model.regions.items()}
                had_orphans = {p for (_f, p, _a) in model.regions.get(r, {}).values() if p and p not in model.regions.get(r, {})}
                created = model.apply_update(r, meaning[2], probes)
                if model.broken is None:
                    if any(l in had_orphans for (_r, l) in created):
                        res.probe("orphan_adopted")
                    for (_r, l) in created:
                        if l in killed_locals[r]:
                            res.probe("local_id_reuse_after_kill")
                    if not created and r in before:
                        res.probe("duplicate_update_delivered")
            elif kind == "kill":
                touched = model.apply_kill(r, meaning[2], probes)
                for l in touched:
                    killed_locals[r].add(l)
                both = [l for l in touched if {"UPDATE", "PROPERTIES"} <= {f["kind"] for f in futures
                        if f["r"] == r and f["local"] == l and f["t"] < now}]
                if both:
                    res.probe("pending_both_kinds_on_killed_object")
            elif kind == "teardown":
                # (the teardown has already been processed when this hook runs: look for requests without a
                #  timeout that were still open before and are cancelled now)
                if any(f["r"] == r and f.get("timeout") is None and f["fut"].cancelled() and not f.get("seen_done")
                       for f in futures):
                    res.probe("teardown_with_pending")
                model.teardown(r)
                torn_down.add(r)
            elif kind == "props":
                if any(f_ in model.limbo for f_ in meaning[2]):
                    model.broken = "properties for a regionless object"
            if model.broken is not None:
                res.probe("precondition_broken")
                res.extra["precondition_broken:" + model.broken] = 1
                state["judging"] = False
                return
            # ---- no handler may have raised while processing this message
            fails = handler_failures()
            if a.escaped is not None:
                return violate("C14/handler-raised/escaped", exc=repr(a.escaped)[:200], event=list(meaning[:2]))
            if fails:
                return violate("C14/handler-raised/" + fails[0][1], where=fails[0][0], exc=fails[0][2],
                               event=[kind, r])
            compare([kind, r, round(now, 4)])
            if stopped:
                return
            # ---- pending requests
            if kind != "teardown":
                for f in futures:
                    if f["fut"].done():
                        f["seen_done"] = True
            if kind == "kill":
                futures_must_be_done(r, set(touched), now, "after kill")
            elif kind == "teardown":
                futures_must_be_done(r, set(range(0, 1000)), now, "after teardown")
            elif kind == "upd":
                if created:
                    if futures_must_be_done(r, {l for (_r, l) in created}, now - 1e-12, "after creating update",
                                            kinds=("UPDATE",)):
                        if any(f["r"] == r and f["local"] in {l for (_r, l) in created} and f["kind"] == "UPDATE"
                               for f in futures):
                            res.probe("futures_resolved_by_update")
        killed_locals: List[Set[int]] = [set(), set()]
        torn_down: Set[int] = set()
        world.arrival_hooks.append(on_arrival)

        end = (plan["steps"][-1]["at"] if plan["steps"] else 0.3) + cfg.get("tail", 1.0)
        why = loop.run_sim(until=end, max_iterations=400_000)
        if why == "cap":
            res.violate("HARNESS/iteration-cap")
        if not stopped and state["judging"]:
            fails = handler_failures()
            if fails:
                violate("C14/handler-raised/" + fails[0][1], where=fails[0][0], exc=fails[0][2], event=["end"])
        if not stopped and state["judging"] and not model.regions:
            # every region was torn down (and the teardown delivered): nothing may be left pending
            for f in futures:
                if not f["fut"].done():
                    violate("C14/futures/left-pending", why="end of run after teardown", region=f["r"],
                            local=f["local"], fkind=f["kind"])
                    break
            left = [o for o in session.objects.all_objects if o.FullID not in {O.full_id(f) for f in model.limbo}]
            if not stopped and left:
                # (regionless objects are tied to no region and are only dropped with the session: not counted)
                violate("C14/index/objects-survive-teardown", n=len(left))
        if not stopped and state["judging"]:
            for f in futures:
                fu = f["fut"]
                if fu.done() and not fu.cancelled() and fu.exception() is None and f["kind"] == "PROPERTIES":
                    res.probe("properties_reply_resolved")
                    break
        if not stopped:
            for ctx in loop.loop_exceptions:
                exc = ctx.get("exception")
                if exc is not None and not isinstance(exc, (asyncio.CancelledError, asyncio.TimeoutError, TimeoutError)):
                    violate("C14/loop-exception", exc=repr(exc)[:200], msg=str(ctx.get("message"))[:160])
                    break
        for k_, n_ in env.net.fault_counts.items():
            if k_ in ("delay", "dup", "drop"):
                res.fault(k_, n_)
        res.sim_time = loop.time()
        res.steps = len(plan["steps"])
        for a in world.arrivals:
            env.tr("arr", round(a.t, 5), a.raw)
        res.digest = env.digest()
        res.abstract = env.abstract_digest()
    return res

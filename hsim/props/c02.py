"""C02 - pass-through fidelity: unmodified datagrams re-encode byte-identically.

Decided inside the UDP proxy world (as C06) with three additions:
 (1) inspectors - a session-level subscriber, a region-level subscriber and an addon
     ``handle_lludp_message`` hook - each reading nothing / header only / the body of a seeded subset
     of messages, with deferred parsing on or off: "all orders of {inspect body, inspect header only,
     never inspect}" as they occur in the real pipeline;
 (2) in-flight corruption of the body (truncate, extend, rewrite a count/length byte, non-canonical
     re-zero-coding) with the header left valid;
 (3) text fields with multiple / embedded / missing NULs and invalid UTF-8, trailing blocks omitted.

Oracles: on the wire (bytes out == bytes in for every forwarded datagram whose zero-coding is
canonical, same decoded body otherwise) and at the message object at every inspection point
(``serialize(message)`` == the datagram as received, also after a failed body access).
"""
from __future__ import annotations

import hashlib
import random

from hsim.core.runner import RunResult
from hsim.gen import messages as G
from hsim.props import c06
from hsim.props.udp_common import only_snan_quieting, rand_fate
from hsim.stubs import lludp as L

PROPERTY = "C02"
CHUNK = {"quick": 24, "thorough": 60}
PROBES = ["zero_expansion_over_codec_limit", "inspect_body", "inspect_header_only", "inspect_failed_parse", "noncanonical_zero_coding",
          "corrupt_forwarded", "corrupt_discarded", "tricky_text", "omitted_trailing_block", "eager_parsing",
          "body_inspected_twice", "logger_inspector", "held_copy_inspected_after_other_traffic", "held_copy_resent"]
COMPONENTS = dict(c06.COMPONENTS)
COMPONENTS["stub"] = COMPONENTS["stub"] + ["inspectors (passive subscribers / addon hook that only read)"]
ASSUMPTIONS = c06.ASSUMPTIONS + [
    "the input quantifier (every byte string) is only sampled by the workload generator; this check adds the "
    "inspection-history and in-flight-corruption dimensions",
    "a datagram whose body was corrupted in flight may be discarded cleanly or forwarded byte-identically on the "
    "wire (C06 allows discarding undecodable datagrams); at the message object it must stay serialisable to the "
    "bytes it arrived with",
]

CORRUPT_KINDS = ["truncate", "extend", "setbyte", "rezero", "rezero_wrap", "zero_bomb"]


def gen_plan(rng: random.Random, tier: str) -> dict:
    big = tier == "thorough"
    cfg = {
        "deferred": rng.random() < 0.75,
        "same_ip": rng.random() < 0.1,
        "n_viewers": 1,
        "regions": [sorted(rng.sample(range(3), rng.randint(1, 2)))],
        "p_delay": rng.choice([0.0, 0.3]),
        "p_dup": rng.choice([0.0, 0.1]),
        "builtin_addons": rng.random() < 0.3,
        "auto_request": False,
        "tail": 0.5,
        "inspect": {
            "seed": rng.randrange(1 << 30),
            "session": rng.choice([None, "mix", "body", "header"]),
            "region": rng.choice([None, "mix", "body", "header"]),
            "addon": rng.choice([None, "mix", "body", "header"]),
            "twice": rng.random() < 0.3,
            "ser_faults": rng.random() < 0.3,
            # the GUI's message log as one more inspector: a field filter makes it parse every body it is shown
            "logger": rng.choice([None, None, "name", "field"]),
            # an addon that takes messages, holds the (still unparsed) copy while other traffic flows, then looks
            # at it and re-sends it: the late look must still decode *that* datagram
            "hold": rng.choice([None, None, "some", "all"]),
            "hold_for": rng.choice([0.0, 0.004, 0.03, 0.12]),
        },
    }
    p_corrupt = rng.choice([0.0, 0.1, 0.3])
    p_tricky = rng.choice([0.0, 0.3, 0.8])
    with_objects = rng.random() < 0.4
    n = rng.randint(4, 60 if big else 30)
    steps = []
    t = 0.05
    for r in cfg["regions"][0]:
        steps.append({"at": t, "op": "ucc", "v": 0, "r": r})
        t = round(t + 0.01, 4)
    p_badsend = rng.choice([0.0, 0.0, 0.08])
    for _ in range(n):
        t = round(t + rng.choice([0.0, 0.001, 0.01, 0.05]), 4)
        r = rng.choice(cfg["regions"][0])
        if rng.random() < p_badsend:
            steps.append({"at": t, "op": "badsend", "v": 0, "r": r, "dir": rng.choice(["in", "out"])})
            continue
        inbound = rng.random() < 0.5
        names = G.filler_names(inbound)
        if with_objects and rng.random() < 0.25:
            name = rng.choice(sorted(G.OBJECT_MSGS - {"ObjectSelect", "ObjectDeselect"}))
        elif rng.random() < 0.1:
            name = rng.choice(["ChatFromSimulator", "UUIDNameReply", "ImprovedInstantMessage", "AvatarPropertiesReply",
                               "ParcelProperties", "RegionHandshake"] if inbound else
                              ["ImprovedInstantMessage", "AgentUpdate", "UpdateInventoryItem", "ScriptDialogReply"])
        else:
            name = rng.choice(names)
        st = {"at": t, "op": "ssend" if inbound else "vsend", "v": 0, "r": r, "name": name,
              "mseed": rng.randrange(1 << 30), "reliable": rng.random() < 0.3, "zerocoded": rng.random() < 0.6,
              "fate": rand_fate(rng, cfg["p_delay"], cfg["p_dup"])}
        if name == "ChatFromViewer":
            st["channel"] = rng.choice([0, 1, 7])
            st["text"] = "x%d" % rng.randrange(100)
        if rng.random() < p_tricky:
            st["tricky"] = True
        if rng.random() < 0.1:
            st["omit_trailing"] = True
        if rng.random() < 0.1:
            st["extra"] = bytes(rng.randrange(256) for _ in range(rng.randint(1, 3))).hex()
        if rng.random() < p_corrupt and name not in ("ChatFromViewer", "RegionHandshake"):
            kind = rng.choice(CORRUPT_KINDS)
            c = {"kind": kind}
            if kind == "truncate":
                c["n"] = rng.randint(1, 6)
            elif kind == "extend":
                c["hex"] = bytes(rng.randrange(256) for _ in range(rng.randint(1, 5))).hex()
            elif kind == "setbyte":
                c["frac"] = round(rng.random(), 3)
                c["v"] = rng.choice([0, 1, 2, 255, rng.randrange(256)])
            elif kind == "zero_bomb":
                c["k"] = rng.choice([3, 40, 47, 48, 49, 50, 51, 64])
            if kind.startswith("rezero") or kind == "zero_bomb":
                st["zerocoded"] = True
            st["corrupt"] = c
        elif rng.random() < 0.2:
            st["acks"] = rng.randint(1, 2)
        steps.append(st)
    return {"property": PROPERTY, "cfg": cfg, "steps": steps}


def simplify_step(step):
    yield from c06.simplify_step(step)
    for k in ("tricky", "corrupt"):
        if step.get(k):
            s = dict(step)
            s.pop(k)
            yield s


def simplify_plan(plan):
    yield from c06.simplify_plan(plan)
    cfg = plan["cfg"]
    ins = cfg["inspect"]
    for k in ("session", "region", "addon", "logger", "hold"):
        if ins.get(k):
            yield {**plan, "cfg": {**cfg, "inspect": {**ins, k: None}}}
    for k in ("session", "region", "addon"):
        if ins.get(k) == "mix":
            yield {**plan, "cfg": {**cfg, "inspect": {**ins, k: "body"}}}
    if ins.get("twice"):
        yield {**plan, "cfg": {**cfg, "inspect": {**ins, "twice": False}}}
    if cfg.get("builtin_addons"):
        yield {**plan, "cfg": {**cfg, "builtin_addons": False}}


class Inspectors:
    def __init__(self, world, oracle, res, cfg):
        from hippolyzer.lib.base.message.udpserializer import UDPMessageSerializer
        self.world = world
        self.oracle = oracle
        self.res = res
        self.cfg = cfg
        self.ser = UDPMessageSerializer()
        self.counter = 0
        self.body_looks = {}

    def mode(self, where: str) -> str:
        m = self.cfg.get(where)
        if m in (None, "body", "header"):
            return m or "none"
        self.counter += 1
        h = hashlib.blake2b(f"{self.cfg['seed']}/{where}/{self.counter}".encode(), digest_size=2).digest()
        return ("none", "header", "body")[h[0] % 3]

    def look(self, message, where: str):
        if self.oracle.stopped:
            return
        mode = self.mode(where)
        if mode == "none":
            return
        failed = False
        if mode == "header":
            _ = (message.name, message.packet_id, message.send_flags, message.acks, message.reliable,
                 message.zerocoded, message.raw_extra, message.direction, message.sender)
            self.res.probe("inspect_header_only")
        else:
            self.res.probe("inspect_body")
            k = id(message)
            self.body_looks[k] = self.body_looks.get(k, 0) + 1
            if self.body_looks[k] == 2:
                self.res.probe("body_inspected_twice")
            for _ in range(2 if self.cfg.get("twice") else 1):
                try:
                    for name, blocks in message.blocks.items():
                        for b in blocks:
                            for var, val in b.items():
                                repr(val)
                    message.to_dict()
                except Exception:
                    failed = True
                    self.res.probe("inspect_failed_parse")
        self.check_forwardable(message, where, mode, failed)

    def check_forwardable(self, message, where, mode, failed):
        a = self.world._current
        if a is None or message.synthetic or message.finalized:
            return
        v = self.world.assoc_owner.get(a.assoc)
        try:
            payload = L.socks_unwrap(a.raw)[1] if a.src == v.addr else a.raw
            pin = L.parse_datagram(payload)
        except Exception:
            return
        if self.cfg.get("ser_faults"):
            # the encoder is shared by everything that is re-encoded here: an encode that fails half-way (somebody
            # tried to send a message with a missing variable) must leave nothing behind for the next one
            self.counter += 1
            h = hashlib.blake2b(f"{self.cfg['seed']}/serfault/{self.counter}".encode(), digest_size=2).digest()
            if h[0] % 5 == 0:
                from hippolyzer.lib.base.message.message import Block, Message
                try:
                    self.ser.serialize(Message("ChatFromSimulator", Block("ChatData", FromName="someone")))
                except Exception:
                    self.res.fault("encode_failed_half_way")
        try:
            out = bytes(self.ser.serialize(message))
        except Exception as e:
            return self.oracle._violate("C02/message/unserialisable-after-inspection", where=where, mode=mode,
                                        parse_failed=failed, name=message.name, exc=repr(e)[:200])
        if out == payload:
            return
        canonical = not (pin.flags & L.ZEROCODED) or L.is_canonical_zero_coding(pin.body_raw)
        if not canonical:
            try:
                pout = L.parse_datagram(out)
                if (pout.body_plain == pin.body_plain and pout.pid == pin.pid and pout.acks == pin.acks
                        and pout.flags == pin.flags):
                    return
            except Exception:
                pass
        try:
            pout = L.parse_datagram(out)
            if only_snan_quieting(pin.body_plain, pout.body_plain) and pout.acks == pin.acks and pout.pid == pin.pid:
                return self.oracle._violate("C02/message/snan-quieted", where=where, name=message.name)
        except Exception:
            pass
        kind = "C02/message/bytes-differ-after-failed-parse" if failed else "C02/message/bytes-differ-after-inspection"
        self.oracle._violate(kind, where=where, mode=mode, name=message.name, canonical=canonical,
                             datagram_in=payload.hex()[:240], reencoded=out.hex()[:240])


def _setup(world, model, oracle, driver, res):
    cfg = world.cfg["inspect"]
    insp = Inspectors(world, oracle, res, cfg)
    if cfg.get("logger"):
        from hippolyzer.lib.proxy.message_logger import FilteringMessageLogger, WrappingMessageLogger
        flog = FilteringMessageLogger(maxlen=8)
        flog.set_filter("*" if cfg["logger"] == "name" else '*.*.* ~= "zz" || *.*.Nope')
        wrap = WrappingMessageLogger()
        wrap.loggers.append(flog)
        world.sm.message_logger = wrap
        res.probe("logger_inspector")

    loop = world.env.loop
    held = {"n": 0}

    def hold(session, region, message):
        """take() the message, keep the copy across other traffic, inspect it late, send it on."""
        a = world._current
        v = world.assoc_owner.get(a.assoc) if a is not None else None
        if a is None or v is None or message.synthetic or message.finalized or message.name in (
                "UseCircuitCode", "PacketAck", "StartPingCheck", "CloseCircuit", "DisableSimulator"):
            return False
        try:
            payload = L.socks_unwrap(a.raw)[1] if a.src == v.addr else a.raw
            pin = L.parse_datagram(payload)
        except Exception:
            return False
        if payload in world.corrupted:
            return False
        arrivals_then = len(world.arrivals)
        copy = message.take()
        a.meta["held"] = True

        def later():
            if insp.oracle.stopped or region.circuit is None or not region.circuit.is_alive \
                    or a.assoc not in world.net.transports:
                return
            if len(world.arrivals) > arrivals_then:
                res.probe("held_copy_inspected_after_other_traffic")
            try:
                copy.blocks
                out = bytes(insp.ser.serialize(copy))
            except Exception as e:
                return insp.oracle._violate("C02/message/held-copy-unreadable", name=copy.name, exc=repr(e)[:200])
            try:
                pout = L.parse_datagram(out)
            except Exception as e:
                return insp.oracle._violate("C02/message/held-copy-unparseable", name=copy.name, exc=repr(e)[:120])
            canonical = not (pin.flags & L.ZEROCODED) or L.is_canonical_zero_coding(pin.body_raw)
            same = pout.body_raw == pin.body_raw if canonical else pout.body_plain == pin.body_plain
            if not same and not only_snan_quieting(pin.body_plain, pout.body_plain):
                return insp.oracle._violate("C02/message/held-copy-body-differs", name=copy.name,
                                            body_in=pin.body_plain.hex()[:160], body_out=pout.body_plain.hex()[:160])
            res.probe("held_copy_resent")
            region.circuit.send(copy)
        loop.call_later(cfg.get("hold_for", 0.0), later)
        return True

    class InspectorAddon:
        def handle_lludp_message(self, session, region, message):
            if cfg.get("hold"):
                held["n"] += 1
                if cfg["hold"] == "all" or held["n"] % 3 == 0:
                    if hold(session, region, message):
                        return None
            insp.look(message, "addon")

        def handle_region_registered(self, session, region):
            if cfg.get("region"):
                region.message_handler.subscribe("*", lambda m: insp.look(m, "region"))

    if cfg.get("addon") or cfg.get("region") or cfg.get("hold"):
        world.addon_manager.FRESH_ADDON_MODULES["hsim-inspector"] = InspectorAddon()
    for spec in world.sessions:
        if cfg.get("session"):
            spec.session.message_handler.subscribe("*", lambda m: insp.look(m, "session"))
        if cfg.get("region"):
            for region in spec.session.regions:
                region.message_handler.subscribe("*", lambda m: insp.look(m, "region"))


def run_plan(plan: dict) -> RunResult:
    res = c06.run_world(plan, PROPERTY, True, setup=_setup)
    for st in plan["steps"]:
        if st.get("tricky"):
            res.probe("tricky_text")
        if st.get("omit_trailing"):
            res.probe("omitted_trailing_block")
    return res

"""Shared pieces for the UDP-proxy-world properties (C02, C05, C06, C07, C14, C18).

* ``WireModel``: black-box reference model of what the proxy must do with each datagram that
  reaches one of its UDP associations, looking only at bytes on the simulated wire.
* ``IdLaws``: per circuit and direction, the observed endpoint-ID <-> wire-ID relation and the
  laws the statement(s) put on it (order, injectivity, stability, avoidance of proxy-made IDs,
  ack back-translation).
* ``Driver``: executes the common plan steps against a ``UdpWorld``.
"""
from __future__ import annotations

import random
import struct
from typing import Any, Callable, Dict, List, Optional, Set, Tuple

from hsim.core.net import Addr, Fate
from hsim.gen import messages as G
from hsim.stubs import lludp as L
from hsim.worlds.udp import Arrival, Emission, UdpWorld, ViewerStub

_NAME_BY_KEY: Dict[Tuple[str, int], str] = {}


def name_of(key: Tuple[str, int]) -> Optional[str]:
    if not _NAME_BY_KEY:
        from hippolyzer.lib.base.message.msgtypes import MsgFrequency as F
        fmap = {F.FIXED: "Fixed", F.LOW: "Low", F.MEDIUM: "Medium", F.HIGH: "High"}
        for t in G.templates().template_list:
            _NAME_BY_KEY[(fmap[t.frequency], t.num)] = t.name
    return _NAME_BY_KEY.get(key)


_BANNED: Set[str] = set()


def is_udp_banned(name: str) -> bool:
    if not _BANNED:
        _BANNED.update(G.udp_banned())
    return name in _BANNED


class FlowIds:
    """One direction of one circuit incarnation, as seen on the wire."""

    def __init__(self):
        self.wire_to_orig: Dict[int, int] = {}    # forwarded endpoint packets
        self.orig_to_wire: Dict[int, int] = {}
        self.proxy_ids: Set[int] = set()          # wire IDs of proxy-originated datagrams
        self.max_wire = 0


class IdLaws:
    """Checks pid/ack fields of forwarded datagrams against the statement's laws."""

    def __init__(self, violate: Callable, prop: str):
        self.violate = violate
        self.prop = prop
        self.flows: Dict[Tuple, FlowIds] = {}

    def flow(self, key) -> FlowIds:
        f = self.flows.get(key)
        if f is None:
            f = self.flows[key] = FlowIds()
        return f

    def reset(self, circuit_key):
        for d in ("out", "in"):
            self.flows.pop(circuit_key + (d,), None)

    def note_proxy_originated(self, circuit_key, direction: str, wire_pid: int):
        f = self.flow(circuit_key + (direction,))
        if wire_pid in f.wire_to_orig:
            self.violate(f"{self.prop}/ids/proxy-id-collides-with-forwarded", wire=wire_pid, direction=direction)
        if f.max_wire and wire_pid <= f.max_wire and wire_pid not in f.proxy_ids:
            self.violate(f"{self.prop}/ids/proxy-id-not-above-seen", wire=wire_pid, max_wire=f.max_wire,
                         direction=direction)
        f.proxy_ids.add(wire_pid)
        f.max_wire = max(f.max_wire, wire_pid)

    def check_forward(self, circuit_key, direction: str, orig_pid: int, wire_pid: int):
        f = self.flow(circuit_key + (direction,))
        if not f.proxy_ids and orig_pid != wire_pid:
            # no proxy-originated packet ever used an ID in this direction: IDs must pass through
            self.violate(f"{self.prop}/ids/renumbered-without-injection", orig=orig_pid, wire=wire_pid,
                         direction=direction)
        prev = f.orig_to_wire.get(orig_pid)
        if prev is not None:
            if prev != wire_pid:
                self.violate(f"{self.prop}/ids/unstable", orig=orig_pid, first=prev, now=wire_pid, direction=direction)
            return
        if wire_pid in f.proxy_ids:
            self.violate(f"{self.prop}/ids/hits-proxy-id", orig=orig_pid, wire=wire_pid, direction=direction)
        if wire_pid in f.wire_to_orig:
            self.violate(f"{self.prop}/ids/not-injective", orig=orig_pid, wire=wire_pid,
                         other=f.wire_to_orig[wire_pid], direction=direction)
        for o2, w2 in f.orig_to_wire.items():
            if (o2 < orig_pid) != (w2 < wire_pid):
                self.violate(f"{self.prop}/ids/not-monotone", orig=orig_pid, wire=wire_pid, other_orig=o2,
                             other_wire=w2, direction=direction)
                break
        f.orig_to_wire[orig_pid] = wire_pid
        f.wire_to_orig[wire_pid] = orig_pid
        f.max_wire = max(f.max_wire, wire_pid)

    def expected_acks(self, circuit_key, direction: str, acks_in) -> Tuple[List[Optional[int]], int]:
        """For acks carried by a datagram travelling `direction`, the acked IDs refer to the reverse
        flow's wire IDs. Returns (expected values, None where unknown), number expected to vanish."""
        rev = self.flow(circuit_key + ("in" if direction == "out" else "out",))
        exp: List[Optional[int]] = []
        vanish = 0
        for a in acks_in:
            if a in rev.proxy_ids:
                vanish += 1
            elif a in rev.wire_to_orig:
                exp.append(rev.wire_to_orig[a])
            else:
                exp.append(None)
        return exp, vanish


def acks_match(expected: List[Optional[int]], got: List[int]) -> bool:
    if len(expected) != len(got):
        return False
    remaining = list(got)
    unknown = 0
    for e in expected:
        if e is None:
            unknown += 1
        elif e in remaining:
            remaining.remove(e)
        else:
            return False
    return len(remaining) == unknown


class AssocModel:
    def __init__(self, viewer: ViewerStub):
        self.viewer = viewer
        self.far_known: Set[Addr] = set()
        self.claimed: Optional[int] = None          # session idx
        self.circuits: Dict[Addr, str] = {}         # far addr -> "open" | "closed"
        self.incarnation: Dict[Addr, int] = {}
        self.alive = True


class Expect:
    __slots__ = ("kind", "direction", "far", "payload", "parsed", "name", "reason", "circuit_key")

    def __init__(self, kind, reason="", direction=None, far=None, payload=None, parsed=None, name=None,
                 circuit_key=None):
        self.kind = kind            # "discard" | "forward" | "unjudged"
        self.reason = reason
        self.direction = direction
        self.far = far
        self.payload = payload
        self.parsed = parsed
        self.name = name
        self.circuit_key = circuit_key


class WireModel:
    """Reference model, driven by the datagrams that actually reached the proxy."""

    def __init__(self, world: UdpWorld, eager: bool):
        self.world = world
        self.eager = eager
        self.assocs: Dict[Addr, AssocModel] = {}
        self.session_pending: Dict[int, bool] = {}
        self.session_regions: Dict[int, Set[Addr]] = {}
        self.session_by_id: Dict[bytes, int] = {}

    def add_session(self, spec):
        self.session_pending[spec.idx] = True
        self.session_regions[spec.idx] = set(spec.region_addrs)
        self.session_by_id[spec.session_id] = spec.idx

    def register_region(self, sidx: int, addr: Addr):
        if sidx in self.session_regions:
            self.session_regions[sidx].add(addr)

    def assoc(self, viewer: ViewerStub) -> AssocModel:
        m = self.assocs.get(viewer.proxy_udp)
        if m is None:
            m = self.assocs[viewer.proxy_udp] = AssocModel(viewer)
        return m

    def close_assoc(self, viewer: ViewerStub):
        m = self.assocs.get(viewer.proxy_udp)
        if m is not None:
            m.alive = False
            if m.claimed is not None:
                self.session_regions.pop(m.claimed, None)
                self.session_pending.pop(m.claimed, None)

    def circuit_key(self, m: AssocModel, far: Addr):
        return (m.viewer.proxy_udp, far, m.incarnation.get(far, 0))

    # -- classification ------------------------------------------------------------
    def classify(self, a: Arrival) -> Expect:
        m = self.assocs.get(a.assoc)
        if m is None or not m.alive:
            return Expect("unjudged", "association closed")
        src, raw = a.src, a.raw
        # (whatever a datagram claimed as its destination, the viewer's own socket is never a simulator)
        if src == m.viewer.addr or (src not in m.far_known and src[0] == m.viewer.ctrl_addr[0]):
            # must be SOCKS5-UDP framed
            try:
                if len(raw) < 4:
                    raise ValueError("short")
                rsv, frag, atyp = struct.unpack("!HBB", raw[:4])
                if rsv != 0 or frag != 0:
                    raise ValueError("rsv/frag")
                if atyp != 1:
                    return Expect("unjudged" if atyp == 3 else "discard", "socks atyp")
                far, payload = L.socks_unwrap(raw)
            except Exception:
                return Expect("discard", "bad socks framing")
            if far != m.viewer.addr:
                m.far_known.add(far)
            direction = "out"
        elif src in m.far_known:
            far, payload, direction = src, raw, "in"
        else:
            return Expect("discard", "unknown host")
        # LLUDP header
        try:
            parsed = L.parse_datagram(payload)
        except Exception:
            return Expect("discard", "undecodable header", direction=direction, far=far)
        name = name_of(parsed.msg_key)
        if name is None:
            return Expect("discard", "unknown message number", direction=direction, far=far)
        if direction == "in" and is_udp_banned(name):
            return Expect("discard", "udp banned", direction=direction, far=far, name=name)
        claimed_now = False
        if m.claimed is None:
            if name == "UseCircuitCode" and direction == "out":
                body = parsed.body_plain[4 + parsed.extra_len:]
                sid = bytes(body[4:20])
                sidx = self.session_by_id.get(sid)
                if sidx is None or not self.session_pending.get(sidx):
                    return Expect("discard", "no pending session to claim", direction=direction, far=far, name=name)
                m.claimed = sidx
                self.session_pending[sidx] = False
                claimed_now = True
            else:
                return Expect("discard", "before session claim", direction=direction, far=far, name=name)
        if name == "UseCircuitCode" and direction == "out":
            if far not in self.session_regions.get(m.claimed, ()):
                if claimed_now:
                    # the datagram legitimately claimed its session but names a region the session does not have:
                    # it is dropped, yet not a pure discard (the claim stands) - not judged
                    return Expect("unjudged", "claimed session, unknown region", direction=direction, far=far, name=name)
                return Expect("discard", "no region for circuit", direction=direction, far=far, name=name)
            if m.circuits.get(far) != "open":
                m.circuits[far] = "open"
                m.incarnation[far] = m.incarnation.get(far, 0) + 1
        state = m.circuits.get(far)
        if state is None:
            return Expect("discard", "no circuit", direction=direction, far=far, name=name)
        ck = self.circuit_key(m, far)
        if state == "closed":
            return Expect("unjudged", "circuit closed", direction=direction, far=far, name=name, parsed=parsed,
                          payload=payload, circuit_key=ck)
        if name in ("CloseCircuit", "DisableSimulator"):
            m.circuits[far] = "closed"
        kind = "forward"
        if payload in self.world.corrupted:
            # body damaged in flight: may be discarded as undecodable or passed through untouched
            kind = "either"
        return Expect(kind, "", direction=direction, far=far, payload=payload, parsed=parsed, name=name,
                      circuit_key=ck)


def only_snan_quieting(a: bytes, b: bytes) -> bool:
    """True iff b differs from a only where a little-endian F32 signalling NaN had its quiet bit set."""
    if len(a) != len(b) or a == b:
        return False
    for i in range(len(a)):
        if a[i] == b[i]:
            continue
        if i + 1 >= len(a):
            return False
        if not (b[i] == a[i] | 0x40 and a[i] & 0x80 and not a[i] & 0x40 and a[i + 1] & 0x7F == 0x7F
                and a[i + 1] == b[i + 1]):
            return False
    return True


def world_snapshot(world: UdpWorld):
    """Observable session state that discards must not disturb."""
    snap = []
    for spec in world.sessions:
        s = spec.session
        regs = tuple((r.circuit_addr, r.circuit is not None, bool(r.circuit and r.circuit.is_alive),
                      id(r.circuit) if r.circuit else 0) for r in s.regions)
        main = s.main_region.circuit_addr if s.main_region else None
        snap.append((spec.idx, s.pending, s in world.sm.sessions, regs, main))
    assocs = []
    for v in world.viewers:
        proto = world.proxy_protocol(v)
        if proto is None:
            assocs.append((v.idx, None))
            continue
        sess = proto.session
        sidx = next((sp.idx for sp in world.sessions if sp.session is sess), None) if sess is not None else None
        assocs.append((v.idx, sidx, tuple(sorted(proto.far_to_near_map.items()))))
    return tuple(snap), tuple(assocs)


def snapshot_diff(before, after, allowed_far: Optional[Addr]):
    if before == after:
        return None
    if before[0] != after[0]:
        return {"sessions_before": repr(before[0]), "sessions_after": repr(after[0])}
    for b, a in zip(before[1], after[1]):
        if b == a:
            continue
        if len(b) == 3 and len(a) == 3 and b[:2] == a[:2]:
            extra = set(a[2]) - set(b[2])
            missing = set(b[2]) - set(a[2])
            if not missing and all(k == allowed_far for k, _ in extra):
                continue
        return {"assoc_before": repr(b), "assoc_after": repr(a)}
    return None


# ----------------------------------------------------------------------------------------
# transparency oracle (C06 content level, C02 byte level)
# ----------------------------------------------------------------------------------------
class TransparencyOracle:
    def __init__(self, world: UdpWorld, model: WireModel, res, prop: str, byte_exact: bool):
        self.world = world
        self.model = model
        self.res = res
        self.prop = prop
        self.byte_exact = byte_exact
        self.laws = IdLaws(self._violate, prop)
        self._before = None
        self.stopped = False
        self.straggler_taint = set()
        self.forwarded = 0
        self.discarded = 0
        self.names_forwarded: Set[str] = set()
        world.arrival_hooks.append(self.on_arrival_done)
        world.emission_hooks.append(self.on_emission)
        world.net.taps.append(self._tap)

    def _violate(self, kind, **detail):
        if not self.stopped:
            if kind.endswith("/snan-quieted"):
                # narrow, recorded finding: keep checking the rest of the run
                if not any(v["kind"] == kind for v in self.res.violations):
                    self.res.violate(kind, **detail)
                return
            self.res.violate(kind, **detail)
            self.stopped = True

    def _tap(self, kind, t, src, dst, data):
        if kind == "deliver" and dst in self.world.assoc_owner:
            self._before = world_snapshot(self.world)
            m = self.model.assocs.get(dst)
            if m is not None and m.alive and self.world.net.endpoints.get(dst) is None and not self.stopped:
                # nobody closed this viewer's connection, yet its relay socket is gone: everything it sends or is
                # sent from now on falls on the floor without the proxy ever seeing it
                self._violate(f"{self.prop}/association/closed-under-a-live-viewer", viewer=list(m.viewer.addr),
                              relay=list(dst))

    def on_emission(self, e: Emission):
        if e.cause is not None or self.stopped:
            return
        # spontaneous: proxy-originated (resend / auto object request). Attribute to a circuit.
        self.res.probe("spontaneous_emission")
        self._note_proxy_originated(e)

    def _note_proxy_originated(self, e: Emission):
        v = self.world.assoc_owner.get(e.assoc)
        m = self.model.assocs.get(e.assoc)
        if v is None or m is None:
            return
        try:
            if e.dst == v.addr:
                far, payload = L.socks_unwrap(e.raw)
                direction = "in"
            else:
                far, payload, direction = e.dst, e.raw, "out"
            p = L.parse_datagram(payload)
        except Exception as ex:
            return self._violate(f"{self.prop}/emission/unparseable", exc=repr(ex), raw=e.raw.hex()[:80])
        e.meta["proxy_originated"] = True
        if not (p.flags & L.RESENT):
            self.laws.note_proxy_originated(self.model.circuit_key(m, far), direction, p.pid)

    def on_arrival_done(self, a: Arrival):
        if self.stopped:
            return
        exp = self.model.classify(a)
        a.meta["expect"] = exp
        after = world_snapshot(self.world)
        v = self.world.assoc_owner.get(a.assoc)
        if exp.kind == "unjudged":
            self.res.probe("unjudged_after_close")
            for e in a.emissions:
                e.meta["unjudged"] = True
            if exp.reason == "circuit closed" and exp.parsed is not None and v is not None:
                # whether a straggler on a torn-down circuit is forwarded at all is not judged, but when the proxy does
                # forward it, it is still a packet of that circuit and direction: the ID laws keep applying
                self._straggler_ids(exp, a, v)
            return
        if exp.kind == "either":
            if a.emissions:
                exp.kind = "forward"
                a.escaped = None
                self.res.probe("corrupt_forwarded")
            else:
                exp.kind = "discard"
                exp.reason = "corrupted body"
                self.res.probe("corrupt_discarded")
        if exp.kind == "discard":
            self.discarded += 1
            self.res.fault("discard:" + exp.reason.replace(" ", "_"))
            if a.emissions:
                return self._violate(f"{self.prop}/discard/emitted", reason=exp.reason, n=len(a.emissions),
                                     raw=a.raw.hex()[:120])
            allowed = exp.far if exp.direction == "out" else None
            d = snapshot_diff(self._before, after, allowed)
            if d:
                return self._violate(f"{self.prop}/discard/state-disturbed", reason=exp.reason, **d)
            return
        # forward
        if a.meta.get("held"):
            # an addon of the harness took this message and will re-send the copy itself (C02 hold inspector):
            # the original is dropped by design, nothing to match here
            for e in a.emissions:
                try:
                    pl = L.socks_unwrap(e.raw)[1] if e.dst == v.addr else e.raw
                    pe = L.parse_datagram(pl)
                    same_dir = (e.dst == v.addr) == (exp.direction == "in")
                    if pe.msg_key == ("Fixed", 0xFB) and same_dir and pe.pid == exp.parsed.pid:
                        continue   # the PacketAck carrying a dropped packet's acks travels in that packet's ID slot
                except Exception:
                    pass
                self._note_proxy_originated(e)
            return
        self.forwarded += 1
        if a.escaped is not None:
            return self._violate(f"{self.prop}/forward/exception-escaped", name=exp.name, exc=repr(a.escaped))
        ems = list(a.emissions)
        pin = exp.parsed
        # a PacketAck made only of acks for proxy-originated packets is legitimately swallowed
        exp_acks, vanish = self.laws.expected_acks(exp.circuit_key, exp.direction, pin.acks)
        if exp.name == "PacketAck":
            ids = L.packet_ack_ids(pin.body_plain, pin.extra_len) or []
            exp_blocks, vanish_b = self.laws.expected_acks(exp.circuit_key, exp.direction, ids)
            if ids and not exp_blocks and not exp_acks:
                if ems:
                    return self._violate(f"{self.prop}/forward/ack-for-injected-leaked", n=len(ems))
                self.res.probe("packetack_swallowed")
                return
        rewritable = exp.name in ("PacketAck", "StartPingCheck") and self._has_injections(exp)
        matches = []
        others = []
        for e in ems:
            try:
                if e.dst == v.addr:
                    far_e, payload_e = L.socks_unwrap(e.raw)
                    dir_e = "in"
                else:
                    far_e, payload_e, dir_e = e.dst, e.raw, "out"
                pe = L.parse_datagram(payload_e)
            except Exception as ex:
                return self._violate(f"{self.prop}/forward/unparseable", exc=repr(ex), raw=e.raw.hex()[:80])
            same = pe.body_plain == pin.body_plain or (rewritable and pe.msg_key == pin.msg_key)
            if same and dir_e == exp.direction:
                matches.append((e, pe, payload_e))
            else:
                others.append((e, pe, payload_e, dir_e))
        if not matches:
            # no exact copy: a single same-type datagram in the same direction is the (altered) copy
            alt = [o for o in others if o[3] == exp.direction and o[1].msg_key == pin.msg_key]
            if len(alt) == 1:
                matches.append(alt[0][:3])
                others.remove(alt[0])
        for o in others:
            # emitted while handling this datagram but not a copy of it: proxy-originated
            self.res.probe("proxy_originated_in_window")
            self._note_proxy_originated(o[0])
        if len(matches) != 1:
            return self._violate(f"{self.prop}/forward/count", name=exp.name, direction=exp.direction,
                                 emitted=len(matches), others=len(ems) - len(matches), flags=pin.flags)
        e, pout, out_payload = matches[0]
        want_dst = exp.far if exp.direction == "out" else v.addr
        if e.dst != want_dst:
            return self._violate(f"{self.prop}/forward/wrong-peer", name=exp.name, direction=exp.direction,
                                 dst=list(e.dst), want=list(want_dst))
        if exp.direction == "in":
            hdr = L.socks_wrap(exp.far, b"")
            if e.raw[:len(hdr)] != hdr:
                return self._violate(f"{self.prop}/forward/bad-socks-header", got=e.raw[:12].hex(), want=hdr.hex())
            if e.raw[len(hdr):] != out_payload:
                return self._violate(f"{self.prop}/forward/bad-socks-header", got=e.raw[:12].hex(), want=hdr.hex())
        self.names_forwarded.add(exp.name)
        # ids
        self.laws.check_forward(exp.circuit_key, exp.direction, pin.pid, pout.pid)
        if self.stopped:
            return
        if not acks_match(exp_acks, list(pout.acks)):
            return self._violate(f"{self.prop}/forward/acks", name=exp.name, acks_in=list(pin.acks),
                                 acks_out=list(pout.acks), expected=exp_acks)
        if (pout.flags & ~L.ACK) != (pin.flags & ~L.ACK) or bool(pout.flags & L.ACK) != bool(pout.acks):
            return self._violate(f"{self.prop}/forward/flags", name=exp.name, flags_in=pin.flags, flags_out=pout.flags)
        if pout.extra_len != pin.extra_len:
            return self._violate(f"{self.prop}/forward/extra", name=exp.name)
        if not rewritable:
            if pout.body_plain != pin.body_plain:
                if only_snan_quieting(pin.body_plain, pout.body_plain):
                    return self._violate(f"{self.prop}/forward/snan-quieted", name=exp.name)
                return self._violate(f"{self.prop}/forward/content", name=exp.name, direction=exp.direction,
                                     body_in=pin.body_plain.hex()[:200], body_out=pout.body_plain.hex()[:200])
            if self.byte_exact:
                canonical = not (pin.flags & L.ZEROCODED) or L.is_canonical_zero_coding(pin.body_raw)
                if canonical and pout.body_raw != pin.body_raw:
                    return self._violate(f"{self.prop}/forward/bytes", name=exp.name,
                                         body_in=pin.body_raw.hex()[:200], body_out=pout.body_raw.hex()[:200])
                if not canonical:
                    self.res.probe("noncanonical_zero_coding")

    def _straggler_ids(self, exp: Expect, a: Arrival, v):
        """ID laws for what is forwarded on a circuit after its teardown message. Anything the oracle cannot tell apart
        with certainty (damaged, held, rewritten or several candidate copies) taints the circuit: no further straggler
        is judged on it, because an unnoticed proxy-originated packet would make the laws' bookkeeping incomplete."""
        ck = exp.circuit_key
        if ck in self.straggler_taint:
            return
        pin = exp.parsed
        if not a.emissions:
            return
        if exp.payload in self.world.corrupted or a.meta.get("held") or exp.name in ("PacketAck", "StartPingCheck"):
            self.straggler_taint.add(ck)
            return
        copies, others = [], []
        for e in a.emissions:
            try:
                if e.dst == v.addr:
                    far_e, payload_e = L.socks_unwrap(e.raw)
                    dir_e = "in"
                else:
                    far_e, payload_e, dir_e = e.dst, e.raw, "out"
                pe = L.parse_datagram(payload_e)
            except Exception:
                self.straggler_taint.add(ck)
                return
            if dir_e == exp.direction and far_e == exp.far and pe.body_plain == pin.body_plain:
                copies.append(pe)
            else:
                others.append(e)
        if len(copies) > 1:
            self.straggler_taint.add(ck)
            return
        for e in others:
            self._note_proxy_originated(e)
        if copies:
            self.res.probe("straggler_ids_checked")
            self.laws.check_forward(ck, exp.direction, pin.pid, copies[0].pid)

    def _has_injections(self, exp: Expect) -> bool:
        ck = exp.circuit_key
        return bool(self.laws.flow(ck + ("in",)).proxy_ids or self.laws.flow(ck + ("out",)).proxy_ids)


# ----------------------------------------------------------------------------------------
# plan steps shared by the UDP-world properties
# ----------------------------------------------------------------------------------------
def rand_fate(rng: random.Random, p_delay: float, p_dup: float, p_drop: float = 0.0, scale=0.05) -> dict:
    from hsim.core.net import draw_delay
    f = {}
    if rng.random() < p_delay:
        d = draw_delay(rng, scale)
        if d:
            f["delay"] = d
    if rng.random() < p_dup:
        f["dup"] = draw_delay(rng, scale * 2)
    if rng.random() < p_drop:
        f["drop"] = True
    return f


def corrupt_datagram(dg: bytes, spec: dict, body_plain: bytes, extra_len: int) -> bytes:
    """In-flight damage to the body; flags, packet id, offset byte and message number stay valid."""
    nl = L.msgnum_len(body_plain)
    min_len = 6 + 2 * nl + 2 * extra_len + 1
    kind = spec["kind"]
    if kind == "truncate":
        n = min(spec["n"], max(0, len(dg) - min_len))
        return dg[:len(dg) - n] if n else dg
    if kind == "extend":
        return dg + bytes.fromhex(spec["hex"])
    if kind == "setbyte":
        if len(dg) <= min_len:
            return dg
        i = min_len + int(spec["frac"] * (len(dg) - min_len))
        i = min(i, len(dg) - 1)
        b = bytearray(dg)
        b[i] = spec["v"]
        return bytes(b)
    if kind in ("rezero", "rezero_wrap"):
        if not dg[0] & L.ZEROCODED:
            return dg
        coded = L.zero_encode_noncanonical(body_plain, 1 if kind == "rezero_wrap" else 0)
        return dg[:6] + coded
    if kind == "zero_bomb":
        # legal continuation form (00 00 ... n): k < 48 stays under the codec's expansion limit, more goes past it
        if not dg[0] & L.ZEROCODED:
            return dg
        return dg + b"\x00" * spec["k"] + b"\x05"
    raise ValueError(kind)


class Driver:
    """Executes plan steps. Step = {"at": t, "op": ..., ...}."""

    def __init__(self, world: UdpWorld, model: Optional[WireModel], res):
        self.world = world
        self.model = model
        self.res = res
        self.ops: Dict[str, Callable[[dict], None]] = {
            "ucc": self.op_ucc, "vsend": self.op_vsend, "ssend": self.op_ssend,
            "garbage": self.op_garbage, "disconnect": self.op_disconnect, "register_region": self.op_register_region,
            "vack": self.op_vack, "sack": self.op_sack, "objsel": self.op_objsel, "reconnect": self.op_reconnect,
            "badsend": self.op_badsend, "stall": self.op_stall, "inject": self.op_inject,
        }
        self._ucc_pid: Dict[tuple, int] = {}
        self.stalls: List[Tuple[float, float]] = []
        self.oracle = None      # set by worlds that judge wire IDs (needed to account for used-up proxy IDs)

    def schedule(self, steps):
        loop = self.world.env.loop
        for i, st in enumerate(steps):
            loop.call_at(st["at"], self._run, i, st)

    def _run(self, i, st):
        self.world.env.tr("step", i, st["op"])
        self.world.env.ab(st["op"], st.get("kind", ""), st.get("v", ""), st.get("r", ""))
        self.ops[st["op"]](st)

    # -- helpers ------------------------------------------------------------------
    def viewer(self, st) -> ViewerStub:
        return self.world.viewers[st.get("v", 0)]

    def far(self, st) -> Addr:
        return self.world.region_addr(st.get("r", 0))

    def spec_of(self, viewer: ViewerStub):
        return self.world.sessions[viewer.session_idx]

    def _flags(self, st) -> int:
        f = 0
        if st.get("reliable"):
            f |= L.RELIABLE
        if st.get("zerocoded"):
            f |= L.ZEROCODED
        if st.get("resent"):
            f |= L.RESENT
        return f

    def build(self, st, endpoint, flow):
        if st.get("retransmit_of") is not None:
            prev = endpoint.sent.get(flow)
            if not prev:
                return None, None
            rec = prev[st["retransmit_of"] % len(prev)]
            if st.get("acks"):
                # a retransmission is a new datagram: whatever is waiting to be acknowledged rides on it, not what
                # rode on the first copy
                acks = endpoint.pick_acks(flow, st["acks"], reack=st.get("reack", False))
                if acks:
                    self.res.probe("retransmission_carrying_fresh_acks")
                    return L.build_datagram(rec["flags"] | L.RESENT, rec["pid"], rec.get("extra_len", 0), rec["body"],
                                            acks), rec["pid"]
            return rec["datagram_resent"], rec["pid"]
        rng = random.Random(st.get("mseed", 0))
        extra = bytes.fromhex(st.get("extra", ""))
        name = st["name"]
        if name == "ChatFromViewer":
            spec = self.spec_of(endpoint) if isinstance(endpoint, ViewerStub) else self.world.sessions[0]
            body = G.chat_from_viewer_body(spec.agent_id, spec.session_id, st.get("text", "hello"),
                                           st.get("channel", 0))
        elif name == "ChatFromSimulator":
            text = bytes.fromhex(st["text_hex"]) if st.get("text_hex") is not None else st.get("text", "hello")
            if st.get("text_hex") is not None:
                self.res.probe("chat_text_not_utf8")
            body = G.chat_from_simulator_body(text, chat_type=st.get("chat_type", 1))
        else:
            tmpl = G.templates().get_template_by_name(name)
            body = tmpl.freq_num_bytes + extra + G.gen_blocks(rng, tmpl, tricky_text=st.get("tricky", False),
                                                              omit_trailing=st.get("omit_trailing", False))
        if name in ("ChatFromViewer", "ChatFromSimulator") and extra:
            nl = L.msgnum_len(body)
            body = body[:nl] + extra + body[nl:]
        if st.get("pid_jump"):
            endpoint.next_pid[flow] = endpoint.next_pid.get(flow, 1) + st["pid_jump"]
            self.res.probe("packet_id_counter_leapt")
        pid = endpoint.alloc_pid(flow)
        nacks = st.get("acks", 0)
        acks = endpoint.pick_acks(flow, nacks, reack=st.get("reack", False)) if nacks else []
        flags = self._flags(st)
        dg = L.build_datagram(flags, pid, len(extra), body, acks)
        if st.get("corrupt") and not acks:
            dg2 = corrupt_datagram(dg, st["corrupt"], body, len(extra))
            if dg2 != dg:
                dg = dg2
                self.world.corrupted.add(dg)
                self.res.fault("corrupt:" + st["corrupt"]["kind"])
                if st["corrupt"]["kind"] == "zero_bomb" and st["corrupt"]["k"] >= 49:
                    self.res.probe("zero_expansion_over_codec_limit")
        endpoint.sent.setdefault(flow, []).append({
            "pid": pid, "flags": flags, "body": body, "acks": acks, "name": name, "extra_len": len(extra),
            "datagram_resent": L.build_datagram(flags | L.RESENT, pid, len(extra), body, ()),
        })
        return dg, pid

    # -- ops ----------------------------------------------------------------------
    def op_ucc(self, st):
        v = self.viewer(st)
        if v.proxy_udp is None or v.session_idx is None:
            return
        spec = self.spec_of(v)
        far = self.far(st)
        sid = spec.session_id if not st.get("bad_session") else b"\xEE" * 16
        body = G.use_circuit_code_body(spec.circuit_code, sid, spec.agent_id)
        first = self._ucc_pid.get((v.addr, far))
        if st.get("again") and first is not None:
            # the viewer retransmits its UseCircuitCode (the ack got lost): same packet ID, RESENT set
            self.res.fault("use_circuit_code_retransmitted")
            dg = L.build_datagram(L.RELIABLE | L.RESENT, first, 0, body)
        else:
            pid = v.alloc_pid(far)
            self._ucc_pid.setdefault((v.addr, far), pid)
            dg = L.build_datagram(L.RELIABLE if st.get("reliable", True) else 0, pid, 0, body)
        v.send_payload(far, dg, Fate.from_json(st.get("fate")))

    def op_inject(self, st):
        """The proxy sends a packet of its own on a circuit (an addon, the operator)."""
        from hippolyzer.lib.base.datatypes import UUID
        from hippolyzer.lib.base.message.message import Block, Message
        from hippolyzer.lib.base.message.msgtypes import PacketFlags
        from hippolyzer.lib.base.network.transport import Direction
        v = self.viewer(st)
        if v.proxy_udp is None or v.session_idx is None or v.proxy_udp not in self.world.net.transports:
            return
        spec = self.spec_of(v)
        region = self.world.region_obj(v.session_idx, self.far(st))
        if region is None or region.circuit is None or not region.circuit.is_alive:
            return
        if st.get("dir", "out") == "out":
            msg = Message("ChatFromViewer", Block("AgentData", AgentID=spec.session.agent_id, SessionID=spec.session.id),
                          Block("ChatData", Message="injected", Type=1, Channel=7), direction=Direction.OUT)
        else:
            msg = Message("ChatFromSimulator", Block("ChatData", FromName="proxy", SourceID=UUID(int=1), OwnerID=UUID(int=2),
                                                     SourceType=1, ChatType=1, Audible=1, Position=(0.0, 0.0, 0.0),
                                                     Message="injected"), direction=Direction.IN)
        if st.get("reliable"):
            msg.send_flags |= PacketFlags.RELIABLE
        self.res.fault("inject_" + st.get("dir", "out"))
        region.circuit.send(msg)

    def op_vsend(self, st):
        v = self.viewer(st)
        if v.proxy_udp is None:
            return
        far = self.far(st)
        dg, _ = self.build(st, v, far)
        if dg is None:
            return
        if st.get("retransmit_of") is not None:
            self.res.fault("endpoint_retransmit")
        v.send_payload(far, dg, Fate.from_json(st.get("fate")))

    def op_ssend(self, st):
        v = self.viewer(st)
        far = self.far(st)
        reg = self.world.regions.get(far)
        if reg is None or v.proxy_udp is None:
            return
        if v.proxy_udp not in reg.peers and not st.get("force"):
            # a real simulator only answers peers it has heard from
            return
        dg, _ = self.build(st, reg, v.proxy_udp)
        if dg is None:
            return
        if st.get("retransmit_of") is not None:
            self.res.fault("endpoint_retransmit")
        reg.send_payload(v.proxy_udp, dg, Fate.from_json(st.get("fate")))

    def op_vack(self, st):
        """Viewer sends a standalone PacketAck for up to n received reliable packets."""
        v = self.viewer(st)
        far = self.far(st)
        if v.proxy_udp is None:
            return
        ids = v.pick_acks(far, st.get("n", 1), reack=st.get("reack", False))
        if not ids:
            return
        extra_acks = v.pick_acks(far, st.get("acks", 0)) if st.get("acks") else []
        dg = L.build_datagram(0, v.alloc_pid(far), 0, L.packet_ack_body(ids), extra_acks)
        v.send_payload(far, dg, Fate.from_json(st.get("fate")))

    def op_sack(self, st):
        v = self.viewer(st)
        far = self.far(st)
        reg = self.world.regions.get(far)
        if reg is None or v.proxy_udp is None or v.proxy_udp not in reg.peers:
            return
        ids = reg.pick_acks(v.proxy_udp, st.get("n", 1), reack=st.get("reack", False))
        if not ids:
            return
        extra_acks = reg.pick_acks(v.proxy_udp, st.get("acks", 0)) if st.get("acks") else []
        dg = L.build_datagram(0, reg.alloc_pid(v.proxy_udp), 0, L.packet_ack_body(ids), extra_acks)
        reg.send_payload(v.proxy_udp, dg, Fate.from_json(st.get("fate")))

    def op_objsel(self, st):
        """Viewer selects objects (the app's SelectionManagerAddon then requests unknown ones itself)."""
        v = self.viewer(st)
        if v.proxy_udp is None or v.session_idx is None:
            return
        far = self.far(st)
        spec = self.spec_of(v)
        tmpl = G.templates().get_template_by_name("ObjectSelect")
        ids = st.get("ids", [1])
        body = tmpl.freq_num_bytes + spec.agent_id + spec.session_id + bytes([len(ids)]) + b"".join(
            struct.pack("<I", i) for i in ids)
        flags = self._flags(st)
        pid = v.alloc_pid(far)
        dg = L.build_datagram(flags, pid, 0, body, v.pick_acks(far, st.get("acks", 0)) if st.get("acks") else [])
        v.sent.setdefault(far, []).append({"pid": pid, "flags": flags, "body": body, "acks": [], "name": "ObjectSelect",
                                           "datagram_resent": L.build_datagram(flags | L.RESENT, pid, 0, body, ())})
        v.send_payload(far, dg, Fate.from_json(st.get("fate")))

    def op_badsend(self, st):
        """Somebody (an addon, the operator) asks a circuit to send a message that cannot be encoded: the call
        fails half-way through the encoder the circuit shares with everything it forwards."""
        from hippolyzer.lib.base.message.message import Block, Message
        from hippolyzer.lib.base.network.transport import Direction
        v = self.viewer(st)
        if v.proxy_udp is None or v.session_idx is None or v.proxy_udp not in self.world.net.transports:
            return
        far = self.far(st)
        region = self.world.region_obj(v.session_idx, far)
        if region is None or region.circuit is None or not region.circuit.is_alive:
            return
        direction = "in" if st.get("dir", "in") == "in" else "out"
        msg = Message("ChatFromSimulator", Block("ChatData", FromName="someone"),
                      direction=Direction.IN if direction == "in" else Direction.OUT)
        if st.get("reliable"):
            from hippolyzer.lib.base.message.msgtypes import PacketFlags
            msg.send_flags |= PacketFlags.RELIABLE
            self.res.probe("unencodable_reliable_send")
        n0 = len(self.world.emissions)
        try:
            region.circuit.send(msg)
        except Exception:
            self.res.fault("send_failed_half_way")
        if len(self.world.emissions) == n0 and msg.packet_id is not None and self.oracle is not None:
            # the wire ID was drawn before the encoder failed: it is used up although nothing was emitted
            m = self.model.assocs.get(v.proxy_udp)
            if m is not None:
                self.oracle.laws.note_proxy_originated(self.model.circuit_key(m, far), direction, msg.packet_id)

    def op_stall(self, st):
        loop = self.world.env.loop
        t0 = loop.time()
        loop.stall(st["dur"])
        self.stalls.append((t0, loop.time()))
        self.res.fault("process_stalled")

    def op_register_region(self, st):
        v = self.viewer(st)
        if v.session_idx is None:
            return
        spec = self.spec_of(v)
        if spec.session not in self.world.sm.sessions:
            return
        ridx = st["r"]
        stub = self.world.add_region(ridx)
        if st.get("no_handle"):
            self.res.probe("region_registered_without_handle")
        handle = stub.handle
        if st.get("same_handle_as") is not None:
            # a simulator that restarted on another port announces itself under the handle of the region it replaces,
            # while the proxy still holds the old circuit
            other = self.world.regions.get(self.world.region_addr(st["same_handle_as"]))
            if other is not None:
                handle = stub.handle = other.handle
                self.res.probe("region_handle_announced_again_on_another_address")
        spec.session.register_region(stub.addr, handle=None if st.get("no_handle") else handle,
                                     seed_url=f"https://sim{ridx}.example.invalid:12043/cap/seed-{spec.idx}-x{ridx}")
        if stub.addr not in spec.region_addrs:
            spec.region_addrs.append(stub.addr)
        if self.model is not None:
            self.model.register_region(spec.idx, stub.addr)

    def op_disconnect(self, st):
        v = self.viewer(st)
        if v.state == "closed":
            return
        self.res.fault("viewer_disconnect")
        if self.model is not None:
            self.model.close_assoc(v)
        v.disconnect()

    def op_reconnect(self, st):
        """A viewer that was disconnected logs in again: new session, new SOCKS connection, new association."""
        v = self.viewer(st)
        if v.state != "closed":
            return
        regions = st.get("regions") or [0]
        sidx = len(self.world.sessions)
        spec = self.world.login(sidx, regions)
        if self.model is not None:
            self.model.add_session(spec)
        v.session_idx = sidx
        self.res.fault("viewer_reconnect")
        v.connect()

    def op_garbage(self, st):
        kind = st["kind"]
        v = self.viewer(st)
        if v.proxy_udp is None:
            return
        far = self.far(st)
        rng = random.Random(st.get("mseed", 0))
        fate = Fate.from_json(st.get("fate"))
        net = self.world.net
        self.res.fault("garbage:" + kind)
        some_body = G.gen_body(rng, rng.choice(G.filler_names(False)))
        valid = L.build_datagram(0, 77, 0, some_body)
        if kind == "unknown_host":
            src = ("10.66.%d.%d" % (rng.randrange(256), rng.randrange(1, 255)), rng.randrange(1024, 65535))
            net.send(src, v.proxy_udp, valid, fate)
        elif kind == "socks_rsv":
            net.send(v.addr, v.proxy_udp, b"\x00\x01" + L.socks_wrap(far, valid)[2:], fate)
        elif kind == "socks_frag":
            net.send(v.addr, v.proxy_udp, b"\x00\x00\x01" + L.socks_wrap(far, valid)[3:], fate)
        elif kind == "socks_atyp":
            net.send(v.addr, v.proxy_udp, b"\x00\x00\x00\x04" + L.socks_wrap(far, valid)[4:], fate)
        elif kind == "socks_self_addressed":
            # well-formed SOCKS datagram whose destination is the viewer's own UDP address
            v.send_payload(v.addr, valid, fate)
        elif kind == "socks_short":
            net.send(v.addr, v.proxy_udp, bytes(rng.randrange(1, 256) for _ in range(rng.randint(1, 3))), fate)
        elif kind == "nonsocks":
            net.send(v.addr, v.proxy_udp, bytes([rng.randrange(1, 256)]) + valid, fate)
        elif kind == "short_header_out":
            v.send_payload(far, valid[:rng.randint(0, 6)], fate)
        elif kind == "short_header_in":
            reg = self.world.regions.get(far)
            if reg is not None:
                reg.send_payload(v.proxy_udp, valid[:rng.randint(0, 6)], fate)
        elif kind == "unknown_msg_out":
            v.send_payload(far, L.build_datagram(0, v.alloc_pid(far), 0, b"\xff\xff\xff\x01" + some_body[4:]), fate)
        elif kind == "unknown_msg_in":
            reg = self.world.regions.get(far)
            if reg is not None:
                reg.send_payload(v.proxy_udp, L.build_datagram(0, 5, 0, b"\xff\xff\x7f\x7f" + some_body[4:]), fate)
        elif kind == "banned_in":
            reg = self.world.regions.get(far)
            if reg is not None:
                name = rng.choice(G.udp_banned())
                reg.send_payload(v.proxy_udp, L.build_datagram(rng.choice([0, L.RELIABLE]), 9, 0,
                                                               G.gen_body(rng, name)), fate)
        elif kind == "no_circuit_out":
            # a far address the session has no region / circuit for
            ghost = ("10.77.0.9", 14000 + st.get("r", 0))
            v.send_payload(ghost, valid, fate)
        elif kind == "sim_unsolicited":
            # a simulator the viewer never talked to
            src = ("10.78.0.9", 15000 + st.get("r", 0))
            net.send(src, v.proxy_udp, valid, fate)
        else:
            raise ValueError(kind)


GARBAGE_KINDS = ["unknown_host", "socks_rsv", "socks_frag", "socks_atyp", "socks_short", "socks_self_addressed", "nonsocks",
                 "short_header_out", "short_header_in", "unknown_msg_out", "unknown_msg_in", "banned_in",
                 "no_circuit_out", "sim_unsolicited"]

"""C17 - event queue: no event lost, duplicated or reordered; injections delivered once.

HTTP world.  Per region the origin keeps a numbered event stream and answers each long poll with
k >= 0 events and a fresh id, with LLSD undef, or with 502 / 499 / 500; like the real simulator it does
*not* re-send on a stale ack.  The viewer stub polls with the last id it actually received; a response
may be lost after the proxy produced it, in which case the viewer re-polls with the stale ack (possibly
several times).  Addons swallow a seeded subset of events (sometimes all of a response) or raise; the
operator injects events (inject_event / inject_message) at seeded instants; regions are torn down.

Oracle: a reference model replayed over the main process's own order of work predicts, per poll, the
exact body the viewer must get; replays must equal the lost response without touching the origin; the
viewer-side concatenation is checked; region-announcing events must leave exactly one region per address.
"""
from __future__ import annotations

import logging
import random
from typing import Dict, List, Optional

from hsim.core.env import SimEnv
from hsim.core.runner import RunResult
from hsim.props.c15 import region_specs
from hsim.worlds.http import FlowRecord, HttpWorld

PROPERTY = "C17"
CHUNK = {"quick": 10, "thorough": 24}
PROBES = ["two_sessions_in_the_same_simulators", "announcement_names_a_torn_down_region", "reentrant_injection_in_same_response", "replay_served", "replay_served_twice_in_a_row", "swallow_all_gives_undef", "injection_across_non_200",
          "injection_while_replay_served", "teardown_with_pending_injection", "hook_raised", "region_announced",
          "region_announced_twice", "announcement_swallowed", "inject_message_templated", "empty_events_with_injection",
          "lost_undef_response", "two_regions_polling", "origin_undef"]
COMPONENTS = {
    "real": ["MITMProxyEventManager._handle_request / _handle_response (EventQueueGet branches), _handle_eq_event",
             "EventQueueManager (inject_event / inject_message / take_injected_events / poll-response cache / clear)",
             "LLSDMessageSerializer", "Session.register_region", "AddonManager.handle_eq_event",
             "SLMITMAddon hooks + callback pump, HippoHTTPFlow state transfer", "ProxiedCircuit (PlacesQuery wake-up send)"],
    "stub": ["viewer EQ poller", "simulator EQ origin (numbered stream, fresh ids, no re-send on stale ack)",
             "scripted addons", "operator injecting events", "mitmproxy core", "queues", "UDP transport (records)"],
}
ASSUMPTIONS = [
    "the viewer only repeats a poll with the same ack after a response was lost (a viewer that re-polls although it "
    "received the response would legitimately see it twice)",
    "malformed poll bodies are not part of this property's alphabet (C15 covers them)",
    "injections still pending when a region is torn down may vanish",
    "an events-carrying response is a 200 whose body is an LLSD map (an empty event list included)",
]

ANNOUNCERS = ["EstablishAgentCommunication", "EnableSimulator", "TeleportFinish", "CrossedRegion"]


def gen_plan(rng: random.Random, tier: str) -> dict:
    big = tier == "thorough"
    n_regions = rng.randint(1, 2)
    # a second avatar logged in through the same proxy, standing in the same simulators and polling its own queues
    second = rng.random() < 0.3
    cfg = {"n_sessions": 1, "n_regions": [n_regions], "second_session": second, "queue_latency": rng.choice([0.0, 0.003, 0.02]),
           "latency_seed": rng.randrange(1 << 30), "tail": 0.6}
    p_lost = rng.choice([0.0, 0.15, 0.35])
    p_bad = rng.choice([0.0, 0.15, 0.3])
    p_swallow = rng.choice([0.0, 0.2, 0.5])
    p_inject = rng.choice([0.0, 0.15, 0.3])
    p_replace = rng.choice([0.0, 0.0, 0.3, 0.7])
    n = rng.randint(3, 36 if big else 20)
    steps = []
    t = 0.01
    ev_no = 0
    for _ in range(n):
        t = round(t + rng.choice([0.003, 0.01, 0.03, 0.08]), 4)
        r = rng.randrange(n_regions * (2 if second else 1))
        x = rng.random()
        if x < p_inject:
            ev_no += 1
            steps.append({"at": t, "op": "inject", "r": r, "n": ev_no, "how": rng.choice(["event", "event", "message"])})
        elif x < p_inject + 0.03:
            steps.append({"at": t, "op": "teardown", "r": r})
        else:
            y = rng.random()
            if y < p_bad:
                status, events = rng.choice([502, 502, 499, 500]), []
            elif y < p_bad + 0.05:
                status, events = 200, None      # 200 with LLSD undef
            else:
                status = 200
                events = []
                for _k in range(rng.choice([0, 1, 1, 2, 3])):
                    ev_no += 1
                    kind = "plain"
                    z = rng.random()
                    if z < 0.2:
                        kind = rng.choice(ANNOUNCERS)
                    elif z < 0.4:
                        kind = "templated"
                    events.append({"n": ev_no, "kind": kind, "addr": rng.randrange(4) if rng.random() < 0.75
                                   else 4 + rng.randrange(n_regions),    # >= 4: a region this viewer already polls
                                   "swallow": rng.random() < p_swallow, "raise": rng.random() < 0.1})
                    if events[-1]["addr"] >= 4 and rng.random() < 0.5:
                        events[-1]["new_seed"] = True
                    if events[-1]["addr"] >= 4 and kind == "EnableSimulator":
                        # (EnableSimulator has no field left to carry the harness's event number once IP, port and
                        #  handle are the real ones)
                        events[-1]["kind"] = "EstablishAgentCommunication"
                    if events[-1]["swallow"] and rng.random() < p_replace:
                        # the addon swallows the event and injects a rewritten one in its place, from inside the hook
                        events[-1]["replace"] = True
                if events and rng.random() < 0.1:
                    for e in events:
                        e["swallow"] = True
            steps.append({"at": t, "op": "poll", "r": r, "status": status, "events": events,
                          "lost": rng.random() < p_lost, "hold": rng.choice([0.0, 0.0, 0.01, 0.05])})
    return {"property": PROPERTY, "cfg": cfg, "steps": steps}


def simplify_step(step):
    if step["op"] == "poll":
        if step.get("lost"):
            yield {**step, "lost": False}
        if step.get("hold"):
            yield {**step, "hold": 0.0}
        evs = step.get("events")
        if evs:
            for i in range(len(evs)):
                yield {**step, "events": evs[:i] + evs[i + 1:]}
            for i, e in enumerate(evs):
                if e["kind"] != "plain":
                    yield {**step, "events": evs[:i] + [{**e, "kind": "plain"}] + evs[i + 1:]}
                if e["raise"]:
                    yield {**step, "events": evs[:i] + [{**e, "raise": False}] + evs[i + 1:]}
                if e.get("replace"):
                    yield {**step, "events": evs[:i] + [{k: v for k, v in e.items() if k != "replace"}] + evs[i + 1:]}
        if step["status"] != 200:
            yield {**step, "status": 200, "events": []}
    if step["op"] == "inject" and step["how"] != "event":
        yield {**step, "how": "event"}


def simplify_plan(plan):
    cfg = plan["cfg"]
    if cfg["queue_latency"]:
        yield {**plan, "cfg": {**cfg, "queue_latency": 0.0}}


def ann_addr(k: int):
    return (f"10.5.0.{k + 2}", 14000 + k)


def run_plan(plan: dict) -> RunResult:
    import mitmproxy.http
    from hippolyzer.lib.base import llsd
    from hippolyzer.lib.base.datatypes import UUID
    from hippolyzer.lib.base.message.llsd_msg_serializer import LLSDMessageSerializer
    from hippolyzer.lib.base.message.message import Block, Message
    from hippolyzer.lib.proxy.circuit import ProxiedCircuit

    res = RunResult()
    cfg = plan["cfg"]
    stopped = []

    def violate(kind, /, **d):
        if not stopped:
            res.violate(kind, **d)
            stopped.append(1)

    with SimEnv(plan.get("seed", 0), log_level=logging.CRITICAL) as env:
        loop = env.loop
        lser = LLSDMessageSerializer()
        swallow_set = set()
        raise_set = set()
        replace_set = set()

        def replacement_of(n):
            return {"message": "HsimReplacement", "body": {"n": 100000 + n}}
        for st in plan["steps"]:
            if st["op"] == "poll" and st.get("events"):
                for e in st["events"]:
                    if e["swallow"]:
                        swallow_set.add(e["n"])
                    if e["raise"]:
                        raise_set.add(e["n"])
                    if e.get("replace"):
                        replace_set.add(e["n"])

        def marker(event: dict) -> Optional[int]:
            try:
                b = event["body"]
                if "n" in b:
                    return int(b["n"])
                if "hsim-n" in b:
                    return int(b["hsim-n"])
                for blk in b.values():
                    if isinstance(blk, list) and blk and isinstance(blk[0], dict):
                        for key in ("LocationID", "Type", "ChatType", "hsim_n"):
                            pass
                if "Info" in b and "LocationID" in b["Info"][0]:
                    v = b["Info"][0]["LocationID"]
                    return int.from_bytes(v, "big") if isinstance(v, bytes) else int(v)
                if "SimulatorInfo" in b:
                    return int(b["SimulatorInfo"][0]["Port"]) - 20000
                if "GroupData" in b:
                    return int(b["GroupData"][0]["Contribution"])
                if "RegionData" in b and "Info" in b and "Position" in b["Info"][0]:
                    return int(b["Info"][0]["Position"][0])
                if "ChatData" in b:
                    return int(str(b["ChatData"][0]["FromName"]).strip("#"))
            except Exception:
                return None
            return None

        class EQAddon:
            def handle_eq_event(self, session, region, event):
                n = marker(event)
                if n in raise_set:
                    res.probe("hook_raised")
                    raise RuntimeError("scripted failure in handle_eq_event")
                if n in swallow_set:
                    if n in replace_set:
                        res.fault("inject_from_inside_hook")
                        region.eq_manager.inject_event(replacement_of(n))
                    return True
                return None

        class _Transport:
            def __init__(self):
                self.sent = []

            def send_packet(self, packet):
                self.sent.append(packet)

            def close(self):
                pass

        world = HttpWorld(env, cfg, addons=[EQAddon()])
        two = bool(cfg.get("second_session"))
        specs_by_s = [region_specs(0, cfg["n_regions"][0], two)]
        sessions_ = [world.login(0, specs_by_s[0])]
        if two:
            specs_by_s.append(region_specs(1, cfg["n_regions"][0], True))       # same simulators, own seeds
            sessions_.append(world.login(1, specs_by_s[1]))
            res.probe("two_sessions_in_the_same_simulators")
        session = sessions_[0]
        transports = []
        eq_urls = []
        sess_of = []          # global region index -> session index
        region_objs = []
        for s_, sess_ in enumerate(sessions_):
            for r, region in enumerate(sess_.regions):
                url = f"https://sim{s_}-{r}.example.invalid:12043/cap/eq-{s_}-{r}"
                eq_urls.append(url)
                region.update_caps({"EventQueueGet": url})
                tr = _Transport()
                transports.append(tr)
                region.circuit = ProxiedCircuit((f"10.1.0.{2 + s_}", 40000 + s_), region.circuit_addr, tr)
                sess_of.append(s_)
                region_objs.append(region)
        specs = specs_by_s[0]
        nreg_total = len(region_objs)
        if cfg["queue_latency"]:
            res.fault("queue_latency")
        if cfg["n_regions"][0] > 1:
            res.probe("two_regions_polling")
        world.start()

        # ---- building events ----------------------------------------------------------------------
        def ann_of(e: dict, r_: int = 0):
            """(address, handle, seed url, EnableSimulator port) an announcing event on region r_'s queue names."""
            if e["addr"] >= 4:
                sp_list = specs_by_s[sess_of[r_]]
                sp = sp_list[(e["addr"] - 4) % len(sp_list)]
                # (a region that is promoted from neighbour to main is announced with a fresh seed capability)
                seed = sp["seed"] + (f"-renewed{e['n']}" if e.get("new_seed") else "")
                return tuple(sp["addr"]), sp["handle"], seed, sp["addr"][1]
            a = ann_addr(e["addr"])
            return a, (7000 + e["addr"]) << 32, f"https://ann{e['addr']}.example.invalid/cap/seed", 20000 + e["n"]

        def build_event(e: dict, r_: int = 0) -> dict:
            n, kind = e["n"], e["kind"]
            addr, handle_, seed_, en_port = ann_of(e, r_)
            if kind == "plain":
                return {"message": "HsimPlainEvent", "body": {"n": n, "text": f"e{n}"}}
            if kind == "EstablishAgentCommunication":
                return {"message": kind, "body": {"hsim-n": n, "agent-id": UUID(int=9),
                                                  "sim-ip-and-port": f"{addr[0]}:{addr[1]}",
                                                  "seed-capability": seed_}}
            if kind == "EnableSimulator":
                m = Message("EnableSimulator", Block("SimulatorInfo", Handle=handle_, IP=addr[0], Port=en_port))
                return lser.serialize(m, True)
            if kind in ("TeleportFinish", "CrossedRegion"):
                if kind == "TeleportFinish":
                    m = Message("TeleportFinish", Block("Info", AgentID=UUID(int=9), LocationID=n, SimIP=addr[0],
                                                        SimPort=addr[1], RegionHandle=handle_,
                                                        SeedCapability=seed_,
                                                        SimAccess=13, TeleportFlags=0))
                    return lser.serialize(m, True)
                m = Message("CrossedRegion", Block("AgentData", AgentID=UUID(int=9), SessionID=UUID(int=8)),
                            Block("RegionData", SimIP=addr[0], SimPort=addr[1], RegionHandle=handle_,
                                  SeedCapability=seed_),
                            Block("Info", Position=(float(n), 2.0, 3.0), LookAt=(1.0, 0.0, 0.0)))
                return lser.serialize(m, True)
            # templated, not region-announcing
            m = Message("AgentGroupDataUpdate", Block("AgentData", AgentID=UUID(int=9)),
                        Block("GroupData", GroupID=UUID(int=n), GroupPowers=0, AcceptNotices=True,
                              GroupInsigniaID=UUID(int=3), Contribution=n, GroupName="grp"))
            return lser.serialize(m, True)

        # ---- origin: numbered stream per region, fresh ids, never re-sends -------------------------------
        origin_state = [{"next_id": 100 * (r + 1), "polls": 0} for r in range(nreg_total)]

        def origin(rec: FlowRecord, request):
            st = rec.spec["st"]
            r = st["r"]
            os_ = origin_state[r]
            os_["polls"] += 1
            rec.spec["origin_poll_no"] = os_["polls"]
            if st["status"] != 200:
                return mitmproxy.http.Response.make(st["status"], b"upstream says no", {"Content-Type": "text/plain"})
            if st["events"] is None:
                res.probe("origin_undef")
                rec.spec["origin_body"] = None
                return mitmproxy.http.Response.make(200, llsd.format_xml(None), {"Content-Type": "application/llsd+xml"})
            os_["next_id"] += 1
            body = {"id": os_["next_id"], "events": [build_event(e, r) for e in st["events"]]}
            rec.spec["origin_body"] = body
            return mitmproxy.http.Response.make(200, llsd.format_xml(body), {"Content-Type": "application/llsd+xml"})
        world.origin = origin

        # ---- viewer poller: one outstanding poll per region, ack = last id actually received ---------------
        viewer = [{"ack": None, "busy": False, "received": [], "last_lost": None, "polls": []}
                  for _ in range(nreg_total)]

        def op_poll(i, st):
            r = st["r"]
            v = viewer[r]
            if v["busy"]:
                return
            v["busy"] = True
            content = llsd.format_xml({"ack": v["ack"], "done": False})
            rec = world.request({"method": "POST", "url": eq_urls[r], "content": content,
                                 "headers": {"Content-Type": "application/llsd+xml"}, "st": st,
                                 "origin_delay": st.get("hold", 0.0), "lose_response": bool(st.get("lost"))})
            rec.spec["ack_sent"] = v["ack"]
            rec.spec["after_lost"] = v["last_lost"]
            v["polls"].append(rec)

            def _done(f):
                v["busy"] = False
                if rec.result is None:
                    return
                if rec.result["lost"]:
                    res.fault("lost_response")
                    v["last_lost"] = rec
                    return
                v["last_lost"] = None
                if rec.result["status"] == 200:
                    try:
                        body = llsd.parse_xml(rec.result["content"])
                    except Exception as e:
                        return violate("C17/viewer/unparseable-response", exc=repr(e)[:100])
                    if body:
                        v["ack"] = body.get("id")
                        v["received"].extend(body.get("events") or [])
            rec.done.add_done_callback(_done)

        def op_inject(i, st):
            region = region_objs[st["r"]]
            res.fault("inject")
            if st["how"] == "message":
                res.probe("inject_message_templated")
                msg = Message("ChatFromSimulator", Block("ChatData", FromName=f"#{st['n']}#", SourceID=UUID(int=1),
                                                         OwnerID=UUID(int=2), SourceType=1, ChatType=1, Audible=1,
                                                         Position=(0.0, 0.0, 0.0), Message="injected"))
                ev = lser.serialize(msg, True)
                region.eq_manager.inject_message(msg)
            else:
                ev = {"message": "HsimInjected", "body": {"n": st["n"]}}
                region.eq_manager.inject_event(ev)
            world.main_log.append({"what": "inject", "t": loop.time(), "r": st["r"], "event": ev})

        def op_teardown(i, st):
            region = region_objs[st["r"]]
            res.fault("region_teardown")
            region.mark_dead()
            world.main_log.append({"what": "teardown", "t": loop.time(), "r": st["r"]})

        ops = {"poll": op_poll, "inject": op_inject, "teardown": op_teardown}
        for i, st in enumerate(plan["steps"]):
            def _run(i=i, st=st):
                env.tr("step", i, st["op"])
                env.ab(st["op"], st.get("status"), len(st.get("events") or []), bool(st.get("lost")))
                if not stopped:
                    ops[st["op"]](i, st)
            loop.call_at(st["at"], _run)
        end = (plan["steps"][-1]["at"] if plan["steps"] else 0) + cfg["tail"]
        why = loop.run_sim(until=end, max_iterations=600_000)
        if why == "cap":
            res.violate("HARNESS/iteration-cap")
        for rec in world.flows:
            if rec.error and rec.error != "cancelled" and not stopped:
                violate("HARNESS/core-stub-error", err=rec.error)

        # ---- reference model replayed over the main process's own order of work ----------------------------
        by_id = {rec.id: rec for rec in world.flows if rec.id}
        nreg = nreg_total
        pending: List[List[dict]] = [[] for _ in range(nreg)]       # injected, not yet delivered
        cache: List[dict] = [{"ack": None, "payload": None} for _ in range(nreg)]
        expected_body: Dict[str, object] = {}
        expected_replay: Dict[str, bool] = {}
        announced_by_s: List[List[tuple]] = [[] for _ in sessions_]
        had_non200_with_pending = [False] * nreg
        torn = set()
        for entry in world.main_log:
            if stopped:
                break
            if entry["what"] == "inject":
                pending[entry["r"]].append(entry["event"])
            elif entry["what"] == "teardown":
                torn.add(entry["r"])
                if pending[entry["r"]]:
                    res.probe("teardown_with_pending_injection")
                pending[entry["r"]] = []
                cache[entry["r"]] = {"ack": None, "payload": None}
            elif entry["what"] == "event":
                rec = by_id.get(entry["flow_id"])
                if rec is None:
                    continue
                st = rec.spec["st"]
                r = st["r"]
                if entry["type"] == "request":
                    c = cache[r]
                    if c["ack"] == rec.spec["ack_sent"] and c["payload"]:
                        expected_replay[rec.id] = True
                        expected_body[rec.id] = c["payload"]
                        if pending[r]:
                            res.probe("injection_while_replay_served")
                    else:
                        expected_replay[rec.id] = False
                else:
                    if expected_replay.get(rec.id):
                        continue      # response was produced from the cache at request time
                    if rec.upstream is None or "origin_body" not in rec.spec:
                        if st["status"] != 200 and pending[r]:
                            res.probe("injection_across_non_200")
                        continue
                    body = rec.spec["origin_body"]
                    if body is None:
                        expected_body[rec.id] = None
                        continue
                    new_events = []
                    for e_spec, e in zip(st["events"], body["events"]):
                        swallowed = e_spec["swallow"] and not e_spec["raise"]
                        if e_spec["kind"] in ANNOUNCERS:
                            if swallowed:
                                res.probe("announcement_swallowed")
                            else:
                                a, _h, _s, en_port_ = ann_of(e_spec, r)
                                announced = announced_by_s[sess_of[r]]
                                if e_spec["kind"] == "EnableSimulator":
                                    a = (a[0], en_port_)
                                if e_spec["addr"] >= 4:
                                    res.probe("announcement_names_a_region_already_polled")
                                    n_own = len(specs_by_s[sess_of[r]])
                                    if sess_of[r] * cfg["n_regions"][0] + (e_spec["addr"] - 4) % n_own in torn:
                                        res.probe("announcement_names_a_torn_down_region")
                                if a in announced:
                                    res.probe("region_announced_twice")
                                announced.append(a)
                                res.probe("region_announced")
                        if not swallowed:
                            new_events.append(e)
                    if pending[r] and not body["events"]:
                        res.probe("empty_events_with_injection")
                    new_events.extend(pending[r])
                    pending[r] = []
                    # events injected from inside a hook while this response was being rewritten go out with it, or
                    # with the next events-carrying response: both are "delivered exactly once, in the next response
                    # that carries events"; the model follows whichever the response actually did
                    repl = [replacement_of(e_spec["n"]) for e_spec in st["events"]
                            if e_spec.get("replace") and e_spec["swallow"] and not e_spec["raise"]]
                    if repl:
                        got_markers = None
                        try:
                            gb = llsd.parse_xml(rec.result["content"]) if rec.result is not None else None
                            got_markers = [marker(e) for e in gb["events"]] if gb else []
                        except Exception:
                            pass
                        if got_markers is not None and got_markers == [marker(e) for e in new_events]:
                            pending[r] = repl
                            res.probe("reentrant_injection_deferred_to_next_response")
                        else:
                            new_events.extend(repl)
                            res.probe("reentrant_injection_in_same_response")
                    if body["events"] and not new_events:
                        res.probe("swallow_all_gives_undef")
                        payload = None
                    else:
                        payload = {"id": body["id"], "events": new_events}
                    expected_body[rec.id] = payload
                    cache[r] = {"ack": rec.spec["ack_sent"], "payload": payload}

        def norm(x):
            return llsd.parse_xml(llsd.format_xml(x))

        # ---- per poll: what came back on the mitmproxy side must be exactly the predicted body ---------------
        for rec in world.flows:
            if stopped or rec.result is None or rec.id not in expected_replay:
                continue
            st = rec.spec["st"]
            tagd = {"region": st["r"], "poll_at": st["at"]}
            if expected_replay[rec.id]:
                res.probe("replay_served")
                prev = rec.spec.get("after_lost")
                if prev is not None and prev.spec.get("after_lost") is not None and expected_replay.get(prev.id):
                    res.probe("replay_served_twice_in_a_row")
                if rec.upstream is not None:
                    violate("C17/replay/origin-contacted", **tagd)
                    break
            if expected_replay[rec.id] is False and rec.upstream is None:
                # nothing entitles the proxy to answer this poll itself (no previous events-carrying response for this
                # ack - e.g. the previous response was the no-events form, after which the ack cannot advance)
                violate("C17/replay/answered-without-a-previous-response", ack=repr(rec.spec.get("ack_sent")),
                        status=rec.result["status"], body=rec.result["content"][:120].decode("latin1"), **tagd)
                break
            if rec.id not in expected_body:
                # non-200 passed through untouched
                if expected_replay[rec.id] is False and rec.upstream is not None and st["status"] != 200:
                    if rec.result["status"] != st["status"]:
                        violate("C17/poll/non-200-altered", got=rec.result["status"], want=st["status"], **tagd)
                        break
                continue
            want = expected_body[rec.id]
            try:
                got = llsd.parse_xml(rec.result["content"])
            except Exception as e:
                violate("C17/poll/unparseable-response", exc=repr(e)[:100], **tagd)
                break
            if rec.result["status"] != 200:
                violate("C17/poll/status", got=rec.result["status"], **tagd)
                break
            if norm(want) != got:
                wn = [marker(e) for e in (want or {}).get("events", [])] if want else None
                gn = [marker(e) for e in (got or {}).get("events", [])] if got else None
                kind = "C17/poll/body"
                if want is None and got is not None:
                    kind = "C17/poll/empty-response-not-undef"
                elif wn is not None and gn is not None:
                    if len(gn) < len(wn):
                        kind = "C17/poll/event-lost"
                    elif len(gn) > len(wn):
                        kind = "C17/poll/event-duplicated-or-unswallowed"
                    elif sorted(x for x in gn if x is not None) == sorted(x for x in wn if x is not None) and gn != wn:
                        kind = "C17/poll/event-reordered"
                violate(kind, want_events=wn, got_events=gn, replay=expected_replay[rec.id],
                        want_id=(want or {}).get("id") if want else None, got_id=(got or {}).get("id") if got else None,
                        **tagd)
                break
            if want is None and rec.result["lost"]:
                res.probe("lost_undef_response")
        # ---- viewer-side concatenation: every produced events-carrying response seen exactly once ---------
        if not stopped:
            for r in range(nreg):
                produced = []
                for rec in viewer[r]["polls"]:
                    if rec.result is None or rec.result["lost"] or rec.result["status"] != 200:
                        continue
                    body = expected_body.get(rec.id)
                    if body:
                        produced.extend(body["events"])
                got = [marker(e) for e in viewer[r]["received"]]
                want = [marker(e) for e in produced]
                if got != want:
                    violate("C17/viewer/stream", region=r, got=got, want=want)
                    break
                # each origin event that was not swallowed must have reached the viewer unless its response
                # (and every replay of it) was lost at the very end of the run
                seen = set(got)
                dup = [x for x in set(got) if x is not None and got.count(x) > 1]
                if dup:
                    violate("C17/viewer/duplicate-event", region=r, events=dup)
                    break
        # ---- regions announced over the event queue: exactly one entry per address -----------------------
        for s_, sess_ in enumerate(sessions_):
            if stopped:
                break
            addrs = [reg.circuit_addr for reg in sess_.regions]
            if len(addrs) != len(set(addrs)):
                violate("C17/regions/duplicate-entry", session=s_, addrs=[list(a) for a in addrs])
            else:
                want = {tuple(sp["addr"]) for sp in specs_by_s[s_]} | set(announced_by_s[s_])
                if set(addrs) != want:
                    violate("C17/regions/set", session=s_, got=sorted(addrs), want=sorted(want))
        if not stopped:
            for ctx in loop.loop_exceptions:
                exc = ctx.get("exception")
                if exc is not None:
                    violate("C17/loop-exception", exc=repr(exc)[:200], msg=str(ctx.get("message"))[:160])
                    break
        res.sim_time = loop.time()
        res.steps = len(plan["steps"])
        for rec in world.flows:
            env.tr("flow", rec.spec["st"]["r"], rec.result["status"] if rec.result else None,
                   rec.result["content"] if rec.result else None, rec.upstream is None)
            env.ab("poll", rec.result["status"] if rec.result else None, rec.upstream is None,
                   bool(rec.result and rec.result["lost"]))
        res.digest = env.digest()
        res.abstract = env.abstract_digest()
        world.shutdown()
    return res

"""C06 - UDP proxying is transparent: right peer, exactly once, content intact; discards disturb nothing.

UDP proxy world (real SOCKS5 handshake, UDP associations, session claim, circuits), 1-2 viewers x
1-3 regions, no scripted addons.  Valid template traffic of every type both ways is interleaved
with the discard alphabet (unknown hosts, bad SOCKS framing, truncated headers, unknown message
numbers, UDP-banned names, no circuit, pre-session), viewer disconnects, and region registration.
"""
from __future__ import annotations

import logging
import random

from hsim.core.env import SimEnv
from hsim.core.runner import RunResult
from hsim.gen import messages as G
from hsim.props.udp_common import GARBAGE_KINDS, Driver, TransparencyOracle, WireModel, rand_fate
from hsim.worlds.udp import UdpWorld

PROPERTY = "C06"
BYTE_EXACT = False
CHUNK = {"quick": 24, "thorough": 60}
PROBES = ["chat_text_not_utf8", "region_handle_announced_again_on_another_address", "packet_id_counter_leapt", "reconnected_session_forwarded", "corrupt_forwarded", "corrupt_discarded", "proxy_originated_in_window", "garbage_between_valid_same_flow", "two_sessions_same_sim", "same_ip", "reopen_after_close",
          "spontaneous_emission", "packetack_swallowed", "unjudged_after_close", "straggler_ids_checked", "late_region_registered",
          "disconnect_midstream", "eager_parsing"]
COMPONENTS = {
    "real": ["SLSOCKS5Server.handle_connection (SOCKS5 greeting + UDP ASSOCIATE)", "UDPProxyProtocol / "
             "InterceptingLLUDPProxyProtocol.datagram_received/handle_proxied_packet", "SOCKS5UDPTransport",
             "SessionManager / Session / ProxiedRegion / ProxiedCircuit", "AddonManager (no scripted addons)",
             "UDPMessageDeserializer/Serializer", "object / name-cache / inventory managers subscribed to the session",
             "attempt_resends task on the virtual clock"],
    "stub": ["viewer (control stream + UDP, own RFC1928 framing)", "simulator endpoints (own LLUDP framing)",
             "network (SimNet)", "clock", "login (create_session called as _handle_login_flow does)",
             "multiprocessing primitives of SessionManager"],
}
ASSUMPTIONS = [
    "datagrams on a circuit after CloseCircuit/DisableSimulator and before it is reopened are not judged",
    "strangers on the viewer's own IP only send payloads that do not parse as a SOCKS5 UDP header",
    "packet-ID / ack fields are compared through the ID laws (identity when the proxy originated nothing)",
    "StartPingCheck / PacketAck bodies may be rewritten once the proxy has originated packets on the circuit",
    "asyncio ready-queue FIFO order is taken as given",
]


def _valid_step(rng, v, r, inbound, t, cfg):
    names = G.filler_names(inbound)
    if not inbound:
        names = [n for n in names if n != "ChatFromViewer"] if rng.random() < 0.98 else ["ChatFromViewer"]
    if cfg.get("p_corrupt") and rng.random() < 0.25:
        names = sorted(G.OBJECT_MSGS - {"ObjectSelect", "ObjectDeselect", "RequestMultipleObjects"}) + [
            "UUIDNameReply", "CoarseLocationUpdate", "ParcelOverlay", "ImprovedInstantMessage"]
    name = rng.choice(names) if rng.random() < 0.93 else rng.choice(
        ["RegionHandshake", "AgentMovementComplete"] if inbound else ["CompleteAgentMovement", "AgentUpdate"])
    st = {"at": t, "op": "ssend" if inbound else "vsend", "v": v, "r": r, "name": name,
          "mseed": rng.randrange(1 << 30), "reliable": rng.random() < 0.4, "zerocoded": rng.random() < 0.5,
          "fate": rand_fate(rng, cfg["p_delay"], cfg["p_dup"])}
    if name == "ChatFromViewer":
        st["text"] = "chat %d" % rng.randrange(1000)
        st["channel"] = rng.choice([0, 1, 523, 525, -5])
    if rng.random() < 0.12:
        st["extra"] = bytes(rng.randrange(256) for _ in range(rng.randint(1, 4))).hex()
    if rng.random() < cfg.get("p_corrupt", 0.0) and name not in ("ChatFromViewer",):
        # body damaged in flight (header stays valid): "cannot be decoded" -> discard cleanly, or pass through intact
        kind = rng.choice(["truncate", "setbyte", "extend"])
        c = {"kind": kind}
        if kind == "truncate":
            c["n"] = rng.randint(1, 6)
        elif kind == "extend":
            c["hex"] = bytes(rng.randrange(256) for _ in range(rng.randint(1, 4))).hex()
        else:
            c["frac"] = round(rng.random(), 3)
            c["v"] = rng.choice([0, 1, 2, 255, rng.randrange(256)])
        st["corrupt"] = c
    elif rng.random() < 0.25:
        st["acks"] = rng.randint(1, 3)
    if rng.random() < 0.08:
        st["omit_trailing"] = True
    return st


def gen_plan(rng: random.Random, tier: str) -> dict:
    big = tier == "thorough"
    n_viewers = 1 if rng.random() < 0.6 else 2
    cfg = {
        "deferred": rng.random() < 0.8,
        "same_ip": rng.random() < 0.2,
        "n_viewers": n_viewers,
        "regions": [sorted(rng.sample(range(3), rng.randint(1, 3))) for _ in range(n_viewers)],
        "p_delay": rng.choice([0.0, 0.3, 0.6]),
        "p_dup": rng.choice([0.0, 0.05, 0.2]),
        "p_garbage": rng.choice([0.0, 0.1, 0.25, 0.4]),
        "p_corrupt": rng.choice([0.0, 0.0, 0.1, 0.3]),
        "builtin_addons": rng.random() < 0.5,
        "tail": rng.choice([0.5, 2.0, 7.0]),
    }
    p_objsel = rng.choice([0.0, 0.03, 0.1]) if cfg["builtin_addons"] else 0.0
    p_ack = rng.choice([0.0, 0.05, 0.15])
    n = rng.randint(6, 70 if big else 40)
    steps = []
    t = 0.05
    opened = set()
    for v in range(n_viewers):
        for k, r in enumerate(cfg["regions"][v]):
            if rng.random() < (0.93 if k == 0 else 0.7):
                steps.append({"at": t, "op": "ucc", "v": v, "r": r})
                opened.add((v, r))
                t = round(t + 0.01, 4)
    jumpy = rng.random() < 0.2
    for _ in range(n):
        t = round(t + rng.choice([0.0, 0.001, 0.01, 0.05, 0.1]), 4)
        v = rng.randrange(n_viewers)
        regs = cfg["regions"][v]
        r = rng.choice(regs)
        x = rng.random()
        if x < cfg["p_garbage"]:
            steps.append({"at": t, "op": "garbage", "kind": rng.choice(GARBAGE_KINDS), "v": v, "r": r,
                          "mseed": rng.randrange(1 << 30), "fate": rand_fate(rng, cfg["p_delay"], cfg["p_dup"])})
        elif x < cfg["p_garbage"] + 0.08:
            steps.append({"at": t, "op": "ucc", "v": v, "r": r, "bad_session": rng.random() < 0.15,
                          "fate": rand_fate(rng, cfg["p_delay"], 0.0)})
            opened.add((v, r))
        elif x < cfg["p_garbage"] + 0.11:
            nm = rng.choice(["CloseCircuit", "DisableSimulator"])
            steps.append({"at": t, "op": "vsend" if nm == "CloseCircuit" else "ssend", "v": v, "r": r, "name": nm,
                          "mseed": 0, "reliable": rng.random() < 0.5})
        elif x < cfg["p_garbage"] + 0.13:
            newr = rng.randrange(3, 5)
            steps.append({"at": t, "op": "register_region", "v": v, "r": newr})
            if rng.random() < 0.3 and regs:
                steps[-1]["same_handle_as"] = rng.choice([x for x in regs if x < 3] or [0])
                t = round(t + 0.01, 4)
                steps.append({"at": t, "op": "ucc", "v": v, "r": newr})
            elif rng.random() < 0.5:
                # announced the way EstablishAgentCommunication does: address and seed, no region handle yet; the
                # viewer connects and the simulator's handshake arrives before anything fills the handle in
                steps[-1]["no_handle"] = True
                t = round(t + 0.01, 4)
                steps.append({"at": t, "op": "ucc", "v": v, "r": newr})
                t = round(t + 0.01, 4)
                steps.append({"at": t, "op": "ssend", "v": v, "r": newr, "name": "RegionHandshake", "mseed": 0,
                              "reliable": True, "zerocoded": True, "fate": {}})
            if newr not in regs:
                regs.append(newr)
        elif x < cfg["p_garbage"] + 0.137:
            steps.append({"at": t, "op": "disconnect", "v": v})
            if rng.random() < 0.6:
                # ... and comes back a little later with a fresh login
                t = round(t + rng.choice([0.01, 0.1]), 4)
                steps.append({"at": t, "op": "reconnect", "v": v, "regions": regs[:2] if all(x < 3 for x in regs[:2]) else [0]})
                t = round(t + 0.01, 4)
                steps.append({"at": t, "op": "ucc", "v": v, "r": (regs[:1] or [0])[0] if regs[0] < 3 else 0})
        elif x < cfg["p_garbage"] + 0.137 + p_objsel:
            steps.append({"at": t, "op": "objsel", "v": v, "r": r, "ids": [rng.randint(1, 9) for _ in range(
                rng.randint(1, 3))], "reliable": rng.random() < 0.5, "zerocoded": True,
                "fate": rand_fate(rng, cfg["p_delay"], cfg["p_dup"])})
        elif x < cfg["p_garbage"] + 0.137 + p_objsel + p_ack:
            steps.append({"at": t, "op": rng.choice(["vack", "sack"]), "v": v, "r": r, "n": rng.randint(1, 3),
                          "reack": rng.random() < 0.2, "fate": rand_fate(rng, cfg["p_delay"], cfg["p_dup"])})
        else:
            y = rng.random()
            if y < 0.08:
                # an endpoint retransmits something it sent earlier (its ack got lost): one more datagram to deliver
                steps.append({"at": t, "op": rng.choice(["vsend", "ssend"]), "v": v, "r": r, "name": "x", "mseed": 0,
                              "retransmit_of": rng.randrange(50), "acks": rng.choice([0, 0, 1]),
                              "fate": rand_fate(rng, cfg["p_delay"], cfg["p_dup"])})
                continue
            st = _valid_step(rng, v, r, rng.random() < 0.5, t, cfg)
            if st["op"] == "ssend" and rng.random() < 0.05:
                # chat whose text is not UTF-8 (another encoding, cut mid-character, stray terminator)
                st = {"at": t, "op": "ssend", "v": v, "r": r, "name": "ChatFromSimulator", "mseed": 0,
                      "chat_type": rng.choice([1, 8]), "reliable": rng.random() < 0.4, "zerocoded": rng.random() < 0.5,
                      "text_hex": rng.choice(["40e9e8", "ff00", "c3", "40c300", "e9e800", "4000"]),
                      "fate": rand_fate(rng, cfg["p_delay"], cfg["p_dup"])}
            if jumpy and rng.random() < 0.15:
                # the sender's packet-ID counter leaps ahead (a counter is only required to increase)
                st["pid_jump"] = rng.choice([5000, 10001, 25000, 70000])
            steps.append(st)
    cfg["regions"] = [sorted(set(x for x in rs if x < 3)) for rs in cfg["regions"]]
    return {"property": PROPERTY, "cfg": cfg, "steps": steps}


def simplify_step(step):
    if step.get("fate"):
        yield {**step, "fate": {}}
    for k in ("acks", "extra", "omit_trailing", "zerocoded", "reliable", "corrupt", "pid_jump"):
        if step.get(k):
            s = dict(step)
            s.pop(k)
            yield s


def simplify_plan(plan):
    cfg = plan["cfg"]
    if cfg.get("same_ip"):
        yield {**plan, "cfg": {**cfg, "same_ip": False}}
    if not cfg.get("deferred"):
        yield {**plan, "cfg": {**cfg, "deferred": True}}
    if cfg["n_viewers"] == 2 and not any(s.get("v") == 1 for s in plan["steps"]):
        yield {**plan, "cfg": {**cfg, "n_viewers": 1, "regions": cfg["regions"][:1]}}


def run_world(plan: dict, prop: str, byte_exact: bool, setup=None) -> RunResult:
    res = RunResult()
    cfg = plan["cfg"]
    with SimEnv(plan.get("seed", 0), log_level=logging.WARNING) as env:
        world = UdpWorld(env, cfg)
        model = WireModel(world, eager=not cfg.get("deferred", True))
        for v in range(cfg["n_viewers"]):
            spec = world.login(v, cfg["regions"][v])
            model.add_session(spec)
            viewer = world.add_viewer(v)
            viewer.session_idx = v
            viewer.connect()
        env.loop.run_sim(until=0.02)
        for viewer in world.viewers:
            if viewer.state != "ready":
                res.violate("HARNESS/socks-handshake", state=viewer.state)
                return res
            model.assoc(viewer)
        world.ready_hooks.append(lambda viewer_: model.assoc(viewer_))
        oracle = TransparencyOracle(world, model, res, prop, byte_exact)
        driver = Driver(world, model, res)
        driver.oracle = oracle
        if setup:
            setup(world, model, oracle, driver, res)
        driver.schedule(plan["steps"])
        end = (plan["steps"][-1]["at"] if plan["steps"] else 0) + plan["cfg"].get("tail", 2.0)
        why = env.loop.run_sim(until=end, max_iterations=400_000)
        if why == "cap":
            res.violate("HARNESS/iteration-cap")
        oracle.stopped = True      # (what is still in flight is delivered while the world is being taken down: not judged)
        # probes
        if cfg.get("same_ip"):
            res.probe("same_ip")
        if not cfg.get("deferred", True):
            res.probe("eager_parsing")
        _probes(world, model, res, plan)
        # every valid datagram that reached a region/viewer stub must be one the proxy emitted (no strays):
        res.extra["forwarded"] = oracle.forwarded
        res.extra["discarded"] = oracle.discarded
        res.extra["distinct_templates_forwarded"] = len(oracle.names_forwarded)
        for k, n in env.net.fault_counts.items():
            if k in ("delay", "dup", "drop", "corrupt"):
                res.fault(k, n)
        res.sim_time = env.loop.time()
        res.steps = len(plan["steps"])
        for a in world.arrivals:
            env.tr("arr", a.src, a.raw, [(e.dst, e.raw) for e in a.emissions])
            exp = a.meta.get("expect")
            env.ab("A", exp.kind if exp else "?", exp.direction if exp else "", len(a.emissions))
        res.digest = env.digest()
        res.abstract = env.abstract_digest()
    return res


def _probes(world, model, res, plan):
    # garbage between two valid datagrams of the same flow
    last_kind = {}
    for a in world.arrivals:
        exp = a.meta.get("expect")
        if exp is None:
            continue
        key = (a.assoc, exp.far, exp.direction)
        if exp.kind == "forward":
            if last_kind.get(key) == "discard-after-forward":
                res.probe("garbage_between_valid_same_flow")
            last_kind[key] = "forward"
        elif exp.kind == "discard" and last_kind.get(key) == "forward":
            last_kind[key] = "discard-after-forward"
    fars = {}
    for a in world.arrivals:
        exp = a.meta.get("expect")
        if exp is not None and exp.kind == "forward":
            fars.setdefault(exp.far, set()).add(a.assoc)
    if any(len(s) > 1 for s in fars.values()):
        res.probe("two_sessions_same_sim")
    for m in model.assocs.values():
        if any(n > 1 for n in m.incarnation.values()):
            res.probe("reopen_after_close")
    if any(s["op"] == "register_region" for s in plan["steps"]):
        res.probe("late_region_registered")
    if any(s["op"] == "disconnect" for s in plan["steps"][:-1]):
        res.probe("disconnect_midstream")
    if len(world.sessions) > plan["cfg"]["n_viewers"]:
        new_ports = {v.proxy_udp for v in world.viewers}
        if any(a.assoc in new_ports and a.meta.get("expect") is not None and a.meta["expect"].kind == "forward"
               and world.assoc_owner.get(a.assoc) is not None and world.assoc_owner[a.assoc].session_idx >= plan["cfg"]["n_viewers"]
               for a in world.arrivals):
            res.probe("reconnected_session_forwarded")


def run_plan(plan: dict) -> RunResult:
    return run_world(plan, PROPERTY, BYTE_EXACT)

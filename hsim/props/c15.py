"""C15 - intercepted HTTP flows are handed back exactly once, state intact.

HTTP world: the mitmproxy-side addon and the main-side event manager run in one virtual loop, joined
by pickling queues with random latency.  A viewer stub issues requests over the whole URL space
(regular caps, unknown URLs, Seed, EventQueueGet, uploader caps, login, FirestormBridge responses,
asset-server caps, proxy-injected and browser requests), the origin answers with valid, empty or
malformed bodies and any status, and scripted addons / http_message_handler subscribers / the logger
ignore, annotate, rewrite, inject, take-and-resume-later, take-then-raise or raise on schedule.
"""
from __future__ import annotations

import asyncio
import contextvars
import gc
import weakref
import logging
import random
import xmlrpc.client
from typing import Dict, List, Optional, Set

from hsim.core.env import SimEnv
from hsim.core.runner import RunResult
from hsim.worlds.http import FlowRecord, HttpWorld

PROPERTY = "C15"
CHUNK = {"quick": 10, "thorough": 24}
PROBES = ["rewritten_wrapper_request", "preempt_won_the_race", "waiter_took_response", "waiter_abandoned_while_subscribed", "preempt_after_release", "closed_session_collected", "session_closed_with_flows_parked", "released_after_its_session_closed",
          "response_of_a_closed_session_handled", "two_sessions_in_one_simulator", "take_resume_later", "take_never_resumed", "raise_in_request_hook", "raise_in_response_hook",
          "raise_in_subscriber", "raise_in_logger", "malformed_seed_request", "malformed_eq_request",
          "malformed_seed_response", "malformed_eq_response", "malformed_uploader_response", "malformed_login_response",
          "bad_bridge_owner_key", "response_injected_at_request", "url_rewritten", "flows_of_two_sessions_interleaved",
          "login_created_session", "streamed_asset_response", "subscriber_take", "double_resume_rejected",
          "queue_latency"]
COMPONENTS = {
    "real": ["SLMITMAddon / IPCInterceptionAddon (request, responseheaders, response, _pump_callbacks)",
             "MITMProxyEventManager.run / pump_proxy_event / _handle_request / _handle_response / _handle_login_flow",
             "HippoHTTPFlow (take / resume / get_state / from_state)", "CapData.serialize / deserialize",
             "mitmproxy HTTPFlow / Request / Response state (de)serialisation", "SessionManager / Session / ProxiedRegion",
             "AddonManager http hooks", "MessageHandler (http_message_handler)"],
    "stub": ["mitmproxy protocol core (hook order per flow)", "viewer HTTP client", "simulator HTTP origin",
             "multiprocessing queues (pickling, latency)", "scripted addons / subscribers / logger"],
}
ASSUMPTIONS = [
    "mitmproxy's core is reduced to request hook -> wait -> (origin) -> responseheaders -> response hook -> wait",
    "a flow taken by an addon that never resumes it is the addon's to keep: no hand-back is required",
    "hand-back latency is judged in virtual time: within 100 ms (plus the injected queue latency) of the event "
    "being queued - generous against the 1 ms polling of both sides, so other polling granularities do not alarm",
]

REQ_BEH = ["ignore", "ignore", "ignore", "meta", "rewrite_url", "inject", "take_resume_later", "take_resume_now",
           "take_raise_resume_later", "take_never", "raise", "no_stream", "resume_twice", "take_resume_preempt"]
RESP_BEH = ["ignore", "ignore", "ignore", "meta", "mutate_body", "take_resume_later", "raise", "truthy"]
SUB_BEH = ["ignore", "ignore", "raise", "take_resume_later"]
KINDS = ["cap", "cap", "unknown", "seed", "seed_bad", "eq", "eq_bad", "uploader", "uploader_bad", "login", "login_bad",
         "bridge", "bridge_bad", "asset", "wrapper", "injected", "browser"]


def gen_plan(rng: random.Random, tier: str) -> dict:
    big = tier == "thorough"
    n_sessions = 1 if rng.random() < 0.6 else 2
    cfg = {
        "n_sessions": n_sessions,
        "n_regions": [rng.randint(1, 2) for _ in range(n_sessions)],
        "queue_latency": rng.choice([0.0, 0.002, 0.01, 0.05]),
        "latency_seed": rng.randrange(1 << 30),
        "n_addons": rng.randint(1, 2),
        "shared_sims": rng.random() < 0.4,
        "logger": rng.choice(["none", "ok", "raises_sometimes"]),
        "tail": 0.6,
    }
    quiet = rng.random() < 0.25
    n = rng.randint(2, 24 if big else 12)
    steps = []
    t = 0.01
    for k in range(n):
        t = round(t + rng.choice([0.0, 0.0, 0.001, 0.005, 0.02, 0.1]), 4)
        s = rng.randrange(n_sessions)
        r = rng.randrange(cfg["n_regions"][s])

        def pick(pool):
            return "ignore" if quiet and rng.random() < 0.85 else rng.choice(pool)
        st = {"at": t, "op": "req", "tag": k, "s": s, "r": r, "kind": rng.choice(KINDS),
              "status": rng.choice([200, 200, 200, 200, 404, 499, 500, 502]),
              "req_beh": [pick(REQ_BEH) for _ in range(cfg["n_addons"])],
              "resp_beh": [pick(RESP_BEH) for _ in range(cfg["n_addons"])],
              "sub_session": pick(SUB_BEH), "sub_region": pick(SUB_BEH),
              "logger_raises": rng.random() < 0.3, "later": rng.choice([0.0, 0.003, 0.05]),
              "origin_delay": rng.choice([0.0, 0.0, 0.01, 0.05])}
        if rng.random() < 0.05:
            # an addon leaves something in the flow that pickles and crosses the queue but that mitmproxy refuses to
            # merge on the other side (a wrongly typed field): the hand-back itself must still release the flow
            st["unmergeable"] = rng.choice(["request", "response"])
        if "take_resume_preempt" in st["req_beh"] and rng.random() < 0.7:
            st["origin_delay"] = 0.05       # the origin is slow enough for the pre-empting answer to win the race
            st["later"] = rng.choice([0.0, 0.003])
        steps.append(st)
    if rng.random() < 0.3:
        # addon coroutines that wait for a particular cap's response (take by default): some wake up and own the flow,
        # some are abandoned first (an outer timeout cancels the await, the subscription itself has no timeout)
        for _w in range(rng.randint(1, 3)):
            tw = round(rng.uniform(0.0, max(0.02, t)), 4)
            s_w = rng.randrange(n_sessions)
            steps.append({"at": tw, "op": "waiter", "s": s_w, "r": rng.randrange(cfg["n_regions"][s_w]),
                          "level": rng.choice(["session", "region"]), "outer": rng.choice([None, 0.0, 0.004, 0.03, 0.2]),
                          "resume_after": rng.choice([0.0, 0.003, 0.05])})
        steps.sort(key=lambda x: x["at"])
    if rng.random() < 0.2:
        # a session goes away (viewer logged out / crashed) shortly after its last request, while flows of it may
        # still be parked with an addon or on their way; nothing of that session is requested afterwards
        s = rng.randrange(n_sessions)
        mine = [i for i, x in enumerate(steps) if x["s"] == s]
        if mine:
            cut = rng.choice(mine[len(mine) // 2:])
            t_close = round(steps[cut]["at"] + rng.choice([0.0005, 0.002, 0.02, 0.08]), 4)
            steps = [x for i, x in enumerate(steps) if not (x["s"] == s and i > cut)]
            for x in steps:
                if x["op"] == "req" and x["s"] == s and rng.random() < 0.5:
                    x["later"] = rng.choice([0.05, 0.15, 0.3])
            steps.append({"at": t_close, "op": "close", "s": s})
            steps.sort(key=lambda x: x["at"])
            cfg["tail"] = 1.4      # two parked phases of up to 0.3 s each plus four queue crossings must fit
    return {"property": PROPERTY, "cfg": cfg, "steps": steps}


def simplify_step(step):
    if step["op"] != "req":
        return
    for key in ("req_beh", "resp_beh"):
        for i, b in enumerate(step[key]):
            if b != "ignore":
                lst = list(step[key])
                lst[i] = "ignore"
                yield {**step, key: lst}
    for key in ("sub_session", "sub_region"):
        if step[key] != "ignore":
            yield {**step, key: "ignore"}
    if step.get("unmergeable"):
        yield {k: v for k, v in step.items() if k != "unmergeable"}
    if step["logger_raises"]:
        yield {**step, "logger_raises": False}
    if step["status"] != 200:
        yield {**step, "status": 200}
    if step["origin_delay"]:
        yield {**step, "origin_delay": 0.0}
    if step["kind"] != "cap":
        yield {**step, "kind": "cap"}


def simplify_plan(plan):
    cfg = plan["cfg"]
    if cfg["queue_latency"]:
        yield {**plan, "cfg": {**cfg, "queue_latency": 0.0}}
    if cfg["logger"] != "none":
        yield {**plan, "cfg": {**cfg, "logger": "none"}}
    reqs = [s for s in plan["steps"] if s["op"] == "req"]
    if cfg["n_addons"] > 1 and all(s["req_beh"][1] == "ignore" and s["resp_beh"][1] == "ignore" for s in reqs):
        yield {**plan, "cfg": {**cfg, "n_addons": 1},
               "steps": [{**s, "req_beh": s["req_beh"][:1], "resp_beh": s["resp_beh"][:1]} if s["op"] == "req" else s
                         for s in plan["steps"]]}


def region_specs(sidx: int, n: int, shared_sims: bool = False) -> List[dict]:
    """`shared_sims`: every session's r-th region is the same simulator (same circuit address and handle) -
    two avatars in the same places; seed / cap URLs stay per session."""
    a = 0 if shared_sims else sidx
    return [{"addr": (f"10.2.{a}.{r + 2}", 13000 + r), "handle": ((1000 + 10 * a + r) << 32) | 256000,
             "seed": f"https://sim{sidx}-{r}.example.invalid:12043/cap/seed-{sidx}-{r}"} for r in range(n)]


def cap_url(sidx, r, name):
    return f"https://sim{sidx}-{r}.example.invalid:12043/cap/{name.lower()}-{sidx}-{r}"


CAPS_GRANTED = ["GetMetadata", "EventQueueGet", "NewFileAgentInventory", "FetchInventory2"]


def run_plan(plan: dict) -> RunResult:
    import mitmproxy.http
    from hippolyzer.lib.base import llsd

    res = RunResult()
    cfg = plan["cfg"]
    stopped = []
    beh: Dict[int, dict] = {s["tag"]: s for s in plan["steps"] if s["op"] == "req"}
    closed: Dict[int, float] = {}      # session index -> when it was closed
    actions: List[dict] = []      # what scripted code did, in order
    takes: Dict[tuple, dict] = {}  # (flow id, event) -> {"resumed_at": t|None}

    def violate(kind, /, **d):
        if not stopped:
            res.violate(kind, **d)
            stopped.append(1)

    with SimEnv(plan.get("seed", 0), log_level=logging.CRITICAL) as env:
        loop = env.loop

        def tag_of(flow) -> Optional[int]:
            v = flow.request.headers.get("X-Tag")
            return int(v) if v is not None else None

        def event_of(flow) -> str:
            return "response" if flow.response is not None and not flow.metadata.get("hsim_req_phase") else "request"

        seen_at_request: Dict[int, dict] = {}

        def snapshot_caps(flow):
            cd = flow.cap_data
            return {"cap_name": cd.cap_name if cd else None, "type": cd.type.name if cd else None,
                    "session": id(cd.session()) if cd and cd.session and cd.session() else None,
                    "region": id(cd.region()) if cd and cd.region and cd.region() else None,
                    "base_url": cd.base_url if cd else None}

        preempts: Dict[str, dict] = {}

        def do_take(flow, tag, event, how, later, raise_after=False, never=False, preempt_after=None):
            flow.take()
            key = (flow.id, event)
            takes[key] = {"resumed_at": None, "never": never}
            actions.append({"kind": "take", "tag": tag, "event": event, "how": how})
            if not never:
                def _resume():
                    st_ = beh.get(tag) or {}
                    if st_.get("s") in closed:
                        res.probe("released_after_its_session_closed")
                    try:
                        flow.resume()
                        takes[key]["resumed_at"] = loop.time()
                        takes[key]["resumed_pump"] = world.in_pump
                        res.probe("take_resume_later")
                        if preempt_after is not None:
                            loop.call_later(preempt_after, _preempt, context=contextvars.Context())
                    except AssertionError:
                        pass
                    except Exception as e:
                        # whoever holds a taken flow must be able to release it, whatever happened meanwhile
                        violate("C15/handoff/release-raised", tag=tag, event=event, exc=repr(e)[:160],
                                session_closed=st_.get("s") in closed)
                def _preempt():
                    # the addon, having released the flow, races the origin with an answer of its own
                    try:
                        flow.response = mitmproxy.http.Response.make(
                            418, f"preempted-{tag}".encode(), {"Content-Type": "text/plain"})
                        flow.preempt()
                        preempts[flow.id] = {"t": loop.time(), "tag": tag}
                        res.probe("preempt_after_release")
                    except Exception as e:
                        violate("C15/handoff/preempt-raised", tag=tag, exc=repr(e)[:160])
                if later is None:
                    _resume()
                else:
                    # (a long-lived worker of the addon releases it: not the hook's own context, which would pin the
                    #  session and region objects)
                    loop.call_later(later, _resume, context=contextvars.Context())
            else:
                res.probe("take_never_resumed")
            if raise_after:
                raise RuntimeError("scripted: raised after take()")

        class ScriptedHTTPAddon:
            def __init__(self, idx):
                self.idx = idx

            def handle_http_request(self, session_manager, flow):
                tag = tag_of(flow)
                st = beh.get(tag)
                if st is None or flow.request_injected and st["kind"] != "injected":
                    return None
                b = st["req_beh"][self.idx]
                actions.append({"kind": "hook", "hook": "request", "addon": self.idx, "tag": tag, "beh": b})
                if self.idx == 0:
                    seen_at_request[tag] = {**snapshot_caps(flow), "request_injected": flow.request_injected,
                                            "from_browser": flow.from_browser, "can_stream": flow.can_stream}
                if flow.taken or flow.resumed:
                    return None
                if self.idx == 0 and st.get("unmergeable") == "request":
                    flow.request.data.http_version = None
                    unmergeable.add(tag)
                    res.fault("unmergeable_state_handed_back")
                if b == "meta":
                    flow.metadata[f"hsim_meta_{self.idx}"] = f"v{tag}"
                elif b == "rewrite_url":
                    flow.request.url = f"https://rewritten.example.invalid/r{tag}"
                    flow.metadata["hsim_rewritten"] = flow.request.url
                    res.probe("url_rewritten")
                elif b == "inject":
                    flow.response = mitmproxy.http.Response.make(
                        418, f"injected-{tag}".encode(), {"X-Injected-By": f"addon{self.idx}", "Content-Type": "text/plain"})
                    flow.metadata["hsim_injected"] = tag
                    res.probe("response_injected_at_request")
                elif b == "take_resume_later":
                    do_take(flow, tag, "request", "addon", st["later"])
                elif b == "take_resume_now":
                    do_take(flow, tag, "request", "addon", None)
                elif b == "take_resume_preempt":
                    do_take(flow, tag, "request", "addon", st["later"], preempt_after=0.002)
                elif b == "take_raise_resume_later":
                    do_take(flow, tag, "request", "addon", st["later"], raise_after=True)
                elif b == "take_never":
                    do_take(flow, tag, "request", "addon", None, never=True)
                elif b == "raise":
                    res.probe("raise_in_request_hook")
                    raise ValueError("scripted failure in handle_http_request")
                elif b == "no_stream":
                    flow.can_stream = False
                elif b == "resume_twice":
                    flow.resume()
                    takes[(flow.id, "request")] = {"resumed_at": loop.time(), "never": False, "resumed_pump": world.in_pump}
                    try:
                        flow.resume()
                        violate("C15/ownership/double-resume-accepted", tag=tag)
                    except AssertionError:
                        res.probe("double_resume_rejected")
                return None

            def handle_http_response(self, session_manager, flow):
                tag = tag_of(flow)
                st = beh.get(tag)
                if st is None:
                    return None
                b = st["resp_beh"][self.idx]
                actions.append({"kind": "hook", "hook": "response", "addon": self.idx, "tag": tag, "beh": b})
                if self.idx == 0 and tag in seen_at_request and not flow.request_injected:
                    check_state_survived(flow, tag)
                if flow.taken or flow.resumed:
                    return None
                if self.idx == 0 and st.get("unmergeable") == "response" and flow.response is not None:
                    flow.response.data.http_version = None
                    unmergeable.add(tag)
                    res.fault("unmergeable_state_handed_back")
                if b == "meta":
                    flow.metadata[f"hsim_rmeta_{self.idx}"] = f"r{tag}"
                elif b == "mutate_body":
                    flow.response.content = (flow.response.content or b"") + b"<!--x-->"
                    flow.metadata["hsim_body_len"] = len(flow.response.content)
                elif b == "take_resume_later":
                    do_take(flow, tag, "response", "addon", st["later"])
                elif b == "raise":
                    res.probe("raise_in_response_hook")
                    raise ValueError("scripted failure in handle_http_response")
                elif b == "truthy":
                    return True
                return None

        def check_state_survived(flow, tag):
            """Main side, response event: what we saw / wrote at request time must have survived two crossings."""
            st = beh[tag]
            if tag in unmergeable:
                return   # the request-time changes were refused by the other side as a whole: only the hand-back is judged
            before = seen_at_request[tag]
            now = snapshot_caps(flow)
            if st["kind"] in ("bridge", "bridge_bad", "login", "login_bad"):
                return   # cap data is legitimately (re)derived on the response for these
            if st["s"] in closed:
                # the owning session is gone: what can still be attributed is the capability itself
                now = {k: v for k, v in now.items() if k not in ("session", "region")}
                res.probe("response_of_a_closed_session_handled")
            if any(b == "rewrite_url" for b in st["req_beh"]) is False and now != {k: before[k] for k in now}:
                return violate("C15/state/cap-data-changed", tag=tag, kind_=st["kind"], before=before, now=now)
            for i, b in enumerate(st["req_beh"]):
                ran = any(a["kind"] == "hook" and a["hook"] == "request" and a["tag"] == tag and a["addon"] == i
                          for a in actions)
                if b == "meta" and ran and wrote_ok(tag, i) and flow.metadata.get(f"hsim_meta_{i}") != f"v{tag}":
                    return violate("C15/state/addon-metadata-lost", tag=tag, key=f"hsim_meta_{i}",
                                   got=flow.metadata.get(f"hsim_meta_{i}"))
            if flow.metadata.get("hsim_rewritten") and st["kind"] != "wrapper" \
                    and flow.request.url != flow.metadata["hsim_rewritten"]:
                return violate("C15/state/rewritten-url-lost", tag=tag, got=flow.request.url)
            if flow.request_injected != before["request_injected"] or flow.from_browser != before["from_browser"]:
                return violate("C15/state/flags-changed", tag=tag)
            if any(b == "no_stream" for b in st["req_beh"]) and no_stream_applied.get(tag) and flow.can_stream:
                return violate("C15/state/can-stream-lost", tag=tag)

        unmergeable: Set[int] = set()
        wrote: Dict[tuple, bool] = {}
        no_stream_applied: Dict[int, bool] = {}

        def wrote_ok(tag, i):
            # the addon only wrote if it was not skipped because an earlier addon took/resumed the flow
            idx = [k for k, a in enumerate(actions) if a["kind"] == "hook" and a["hook"] == "request"
                   and a["tag"] == tag and a["addon"] == i]
            if not idx:
                return False
            for a in actions[:idx[0]]:
                if a.get("tag") == tag and a["kind"] == "take" and a["event"] == "request":
                    return False
                if a.get("tag") == tag and a["kind"] == "hook" and a["hook"] == "request" and a["beh"] == "resume_twice":
                    return False
            return True

        class RecordingLogger:
            paused = False

            def log_http_response(self, flow):
                tag = tag_of(flow)
                st = beh.get(tag)
                actions.append({"kind": "logged", "tag": tag})
                if cfg["logger"] == "raises_sometimes" and st and st["logger_raises"]:
                    res.probe("raise_in_logger")
                    raise RuntimeError("scripted logger failure")

            def log_lludp_message(self, *a):
                pass

            def log_eq_event(self, *a):
                pass

        addons = [ScriptedHTTPAddon(i) for i in range(cfg["n_addons"])]
        world = HttpWorld(env, cfg, addons=addons, logger=None if cfg["logger"] == "none" else RecordingLogger())
        sessions = []
        for s in range(cfg["n_sessions"]):
            specs = region_specs(s, cfg["n_regions"][s], cfg.get("shared_sims", False))
            sess = world.login(s, specs)
            sessions.append(sess)
            for r, region in enumerate(sess.regions):
                caps = {name: cap_url(s, r, name) for name in CAPS_GRANTED}
                caps["ViewerAsset"] = f"http://asset-cdn.example.invalid/viewerasset-{s}-{r}"
                region.update_caps(caps)
                region.register_wrapper_cap("ViewerAsset")
                # subscribers on both handler levels

                def make_sub(level, sess=sess, region=region):
                    def _sub(flow):
                        tag = tag_of(flow)
                        st = beh.get(tag)
                        if st is None:
                            return
                        b = st["sub_session" if level == "session" else "sub_region"]
                        actions.append({"kind": "sub", "level": level, "tag": tag, "beh": b})
                        if b == "raise":
                            res.probe("raise_in_subscriber")
                            raise KeyError("scripted subscriber failure")
                        if b == "take_resume_later" and not flow.taken and not flow.resumed:
                            res.probe("subscriber_take")
                            do_take(flow, tag, "response", "subscriber", st["later"])
                    return _sub
                region.http_message_handler.subscribe("*", make_sub("region"))
            sess.http_message_handler.subscribe("*", make_sub("session"))
        agent_ids = [str(x.agent_id) for x in sessions]
        sess = region = None     # (the loop variables must not pin a session the plan closes later)
        if cfg["queue_latency"]:
            res.fault("queue_latency")
            res.probe("queue_latency")
        world.start()

        # ---- origin ------------------------------------------------------------------------------------
        def origin(rec: FlowRecord, request):
            st = rec.spec["st"]
            kind = st["kind"]
            status = st["status"]
            hdrs = {"Content-Type": "application/llsd+xml"}
            body = b"<llsd><map /></llsd>"
            if kind == "seed":
                body = llsd.format_xml({"GetMetadata": cap_url(st["s"], st["r"], "GetMetadata") + "-regrant",
                                        "ViewerAsset": f"http://asset-cdn.example.invalid/va2-{st['s']}-{st['r']}"})
            elif kind == "seed_bad" or kind == "eq_bad" or kind == "uploader_bad":
                body = b"<llsd><map><key>broken"
                res.probe({"seed_bad": "malformed_seed_response", "eq_bad": "malformed_eq_response",
                           "uploader_bad": "malformed_uploader_response"}[kind])
            elif kind == "eq":
                body = llsd.format_xml({"id": 7, "events": [{"message": "FooEvent", "body": {"x": 1}}]})
            elif kind == "uploader":
                body = llsd.format_xml({"state": "upload", "uploader": cap_url(st["s"], st["r"], f"uploader-{st['tag']}")})
            elif kind == "login":
                s_new = 5 + st["tag"]
                from hippolyzer.lib.base.datatypes import UUID
                from hsim.worlds.udp import uuid_bytes
                body = xmlrpc.client.dumps(({
                    "session_id": str(UUID(bytes=uuid_bytes(0x50, s_new))), "secure_session_id": str(UUID(bytes=uuid_bytes(0x51, s_new))),
                    "agent_id": str(UUID(bytes=uuid_bytes(0x52, s_new))), "circuit_code": 7000 + s_new,
                    "sim_ip": "10.9.9.9", "sim_port": 14000 + st["tag"], "region_x": 256000, "region_y": 256000,
                    "seed_capability": f"https://newsim.example.invalid/cap/seed-login-{st['tag']}"},), methodresponse=True).encode()
                hdrs = {"Content-Type": "text/xml"}
            elif kind == "login_bad":
                body = b"<?xml version='1.0'?><methodResponse><params><param><value><str"
                hdrs = {"Content-Type": "text/xml"}
                res.probe("malformed_login_response")
            elif kind in ("bridge", "bridge_bad"):
                owner = agent_ids[st["s"]] if kind == "bridge" else "not-a-uuid"
                if kind == "bridge_bad":
                    res.probe("bad_bridge_owner_key")
                hdrs = {"X-SecondLife-Object-Name": "#Firestorm LSL Bridge v1", "X-SecondLife-Owner-Key": owner,
                        "Content-Type": "application/llsd+xml"}
                body = b"<llsd><string>ok</string></llsd>"
            elif kind in ("asset", "wrapper"):
                body = b"\x00" * 64
                hdrs = {"Content-Type": "application/octet-stream"}
            return mitmproxy.http.Response.make(status, body, hdrs)
        world.origin = origin

        # ---- requests ------------------------------------------------------------------------------------
        records: Dict[int, FlowRecord] = {}

        def op_req(st):
            s, r, kind = st["s"], st["r"], st["kind"]
            headers = {"X-Tag": str(st["tag"]), "User-Agent": "SecondLife"}
            method, content = "GET", b""
            if kind == "cap":
                url = cap_url(s, r, "GetMetadata") + f"/x?t={st['tag']}"
                method, content = "POST", llsd.format_xml({"item-id": "x"})
            elif kind == "unknown":
                url = f"https://elsewhere.example.invalid/thing/{st['tag']}"
            elif kind in ("seed", "seed_bad"):
                url = sessions[s].regions[r].cap_urls["Seed"]
                method = "POST"
                content = llsd.format_xml(["GetMetadata", "ViewerAsset"]) if st["tag"] % 3 else b"<llsd><array><str"
                if not st["tag"] % 3:
                    res.probe("malformed_seed_request")
            elif kind in ("eq", "eq_bad"):
                url = cap_url(s, r, "EventQueueGet")
                method = "POST"
                content = llsd.format_xml({"ack": None, "done": False}) if st["tag"] % 3 else b"not llsd at all"
                if not st["tag"] % 3:
                    res.probe("malformed_eq_request")
            elif kind in ("uploader", "uploader_bad"):
                url = cap_url(s, r, "NewFileAgentInventory")
                method, content = "POST", llsd.format_xml({"asset_type": "texture"})
            elif kind in ("login", "login_bad"):
                url = "https://login.example.invalid/cgi-bin/login.cgi"
                method = "POST"
                content = b'<?xml version="1.0"?><methodCall><methodName>login_to_simulator</methodName></methodCall>'
                headers["Content-Type"] = "text/xml"
            elif kind in ("bridge", "bridge_bad"):
                url = f"http://sim-lsl.example.invalid:12046/cap/bridge-{st['tag']}"
                content = b"<llsd><string>getZOffsets|</string></llsd>"
                method = "POST"
            elif kind == "asset":
                url = f"http://asset-cdn.example.invalid/viewerasset-{s}-{r}/?texture_id=abc{st['tag']}"
            elif kind == "wrapper":
                url = sessions[s].regions[r].cap_urls["ViewerAssetProxyWrapper"] + f"/?mesh_id=m{st['tag']}"
            elif kind == "injected":
                url = cap_url(s, r, "FetchInventory2")
                headers["X-Hippo-Injected"] = "1"
                method, content = "POST", llsd.format_xml({"folders": []})
            else:  # browser
                url = f"https://www.example.invalid/page{st['tag']}"
                headers["User-Agent"] = "Mozilla/5.0 (hsim)"
                headers["X-Hippo-Injected"] = "1"   # must be ignored for browsers
            rec = world.request({"method": method, "url": url, "content": content, "headers": headers, "st": st,
                                 "origin_delay": st["origin_delay"]})
            records[st["tag"]] = rec
        def op_close(st):
            s_ = st["s"]
            sess_ = sessions[s_]
            if sess_ is None:
                return
            pending = [k for k, v in takes.items() if v["resumed_at"] is None and not v["never"]]
            res.fault("session_closed")
            if pending:
                res.probe("session_closed_with_flows_parked")
            wr = weakref.ref(sess_)
            world.sm.close_session(sess_)
            closed[s_] = loop.time()
            sessions[s_] = None
            for d in world.sessions:
                if d.get("session") is sess_:
                    d["session"] = None
            del sess_
            gc.collect()
            if wr() is None:
                res.probe("closed_session_collected")

        def op_waiter(st):
            sess_ = sessions[st["s"]]
            if sess_ is None:
                return
            handler = sess_.http_message_handler if st["level"] == "session" else sess_.regions[st["r"]].http_message_handler
            res.fault("cap_response_waiter")

            async def _w():
                fut = handler.wait_for(("GetMetadata",))
                try:
                    flow = await (asyncio.wait_for(fut, st["outer"]) if st["outer"] is not None else fut)
                except asyncio.TimeoutError:
                    res.probe("waiter_abandoned_while_subscribed")
                    return
                # the handler took the flow on our behalf: we own it now and give it back ourselves
                tag = tag_of(flow)
                key = (flow.id, "response")
                takes[key] = {"resumed_at": None, "never": False}
                actions.append({"kind": "take", "tag": tag, "event": "response", "how": "waiter"})
                res.probe("waiter_took_response")
                if st["resume_after"]:
                    await asyncio.sleep(st["resume_after"])
                try:
                    flow.resume()
                    takes[key]["resumed_at"] = loop.time()
                    takes[key]["resumed_pump"] = world.in_pump
                except AssertionError:
                    pass
            loop.create_task(_w(), context=contextvars.Context())

        for i, st in enumerate(plan["steps"]):
            def _run(i=i, st=st):
                env.tr("step", i, st.get("kind", st["op"]))
                if st["op"] == "close":
                    env.ab("close")
                    return op_close(st)
                if st["op"] == "waiter":
                    env.ab("waiter", st["level"], st["outer"])
                    return op_waiter(st)
                env.ab("req", st["kind"], st["status"])
                op_req(st)
            loop.call_at(st["at"], _run)
        end = (plan["steps"][-1]["at"] if plan["steps"] else 0) + cfg["tail"]
        why = loop.run_sim(until=end, max_iterations=600_000)
        if why == "cap":
            res.violate("HARNESS/iteration-cap")

        # ---- oracle over the recorded history ---------------------------------------------------------------
        if not stopped:
            by_flow: Dict[str, FlowRecord] = {r.id: r for r in world.flows if r.id}
            # events handed to the main process, per (flow, event)
            sent = {}
            for e in world.from_proxy_log:
                key = (e["flow_id"], e["type"])
                if key in sent:
                    violate("C15/handoff/event-queued-twice", flow=e["flow_id"][:8], event=e["type"])
                    break
                sent[key] = e
        if not stopped:
            callbacks: Dict[str, List[dict]] = {}
            for c in world.to_proxy_log:
                if c["type"] == "callback":
                    callbacks.setdefault(c["flow_id"], []).append(c)
            for rec in world.flows:
                if stopped:
                    break
                if rec.error and rec.error != "cancelled":
                    violate("HARNESS/core-stub-error", err=rec.error)
                    break
                st = rec.spec["st"]
                tag = st["tag"]
                n_events = sum(1 for (fid, _ev) in sent if fid == rec.id)
                cbs = callbacks.get(rec.id, [])
                # which events were taken, and were they released?
                never = [k for k, v in takes.items() if k[0] == rec.id and v["never"]]
                unreleased = [k for k, v in takes.items() if k[0] == rec.id and not v["never"] and v["resumed_at"] is None]
                expected = n_events - len(never) - len(unreleased)
                if len(cbs) != expected:
                    kind = "C15/handoff/callback-duplicated" if len(cbs) > expected else "C15/handoff/callback-missing"
                    violate(kind, tag=tag, kind_=st["kind"], events=n_events, callbacks=len(cbs), never=len(never),
                            req_beh=st["req_beh"], resp_beh=st["resp_beh"], subs=[st["sub_session"], st["sub_region"]],
                            status=st["status"])
                    break
                pre = [c for c in world.to_proxy_log if c["type"] == "preempt" and c["flow_id"] == rec.id]
                if rec.id in preempts:
                    # the pre-empting answer crosses over exactly once, state intact
                    if len(pre) != 1:
                        violate("C15/handoff/preempt-count", tag=tag, queued=len(pre))
                        break
                    stp = pre[0]["state"]
                    resp_ = stp.get("response") or {}
                    if resp_.get("status_code") != 418 or bytes(resp_.get("content") or b"") != f"preempted-{tag}".encode():
                        violate("C15/state/preempting-response-lost", tag=tag, status=resp_.get("status_code"))
                        break
                    def _cd(x):
                        # (once the owning session is gone only the capability itself can still be attributed)
                        if x is None or st["s"] not in closed:
                            return x
                        return tuple(v for k_, v in zip(x._fields, x) if k_ not in ("region_addr", "session_id"))
                    if cbs and _cd(stp["metadata"].get("cap_data_ser")) != _cd(cbs[0]["state"]["metadata"].get("cap_data_ser")):
                        violate("C15/state/cap-data-changed", tag=tag, kind_="preempt",
                                before=repr(cbs[0]["state"]["metadata"].get("cap_data_ser"))[:200],
                                now=repr(stp["metadata"].get("cap_data_ser"))[:200])
                        break
                    # ... and is applied to the flow it was meant for: when it clearly got there before the origin
                    # answered, the proxy side must have put it in
                    req_cb = next((c for c in cbs), None)
                    t_orig = next((e[1] for e in rec.events if e[0] == "origin"), None)
                    if (req_cb is not None and t_orig is not None and st["req_beh"].count("take_resume_preempt") == 1
                            and pre[0]["t"] + cfg["queue_latency"] + 0.01 < t_orig and tag not in unmergeable):
                        res.probe("preempt_won_the_race")
                        if not any(e[0] == "preempted" for e in rec.events):
                            violate("C15/state/preempting-response-never-applied", tag=tag, preempt_queued=pre[0]["t"],
                                    origin_answered=t_orig)
                            break
                elif pre:
                    violate("C15/handoff/preempt-count", tag=tag, queued=len(pre), want=0)
                    break
                if not (len(cbs) <= rec.resume_calls <= len(cbs) + len(pre)):
                    violate("C15/handoff/resume-count", tag=tag, resumes=rec.resume_calls, callbacks=len(cbs))
                    break
                # timing: non-taken events come back from the very pump call that handled them, promptly
                ev_order = [e for e in world.from_proxy_log if e["flow_id"] == rec.id]
                for e, c in zip(ev_order, cbs):
                    key = (rec.id, e["type"])
                    if key in takes:
                        t_res = takes[key]["resumed_at"]
                        if t_res is not None and abs(c["t"] - t_res) > 1e-9:
                            violate("C15/handoff/taken-flow-released-at-wrong-time", tag=tag, callback_at=c["t"], resumed_at=t_res)
                            break
                    else:
                        if c["pump"] is None:
                            violate("C15/handoff/callback-outside-pump", tag=tag, event=e["type"])
                            break
                        if c["t"] - e["t"] > cfg["queue_latency"] + 0.1:
                            violate("C15/handoff/late", tag=tag, event=e["type"], queued=e["t"], callback=c["t"])
                            break
                if stopped:
                    break
                # the viewer got an answer unless the flow is parked with an addon
                parked = bool(never or unreleased)
                if not parked and rec.result is None:
                    violate("C15/handoff/flow-never-completed", tag=tag, kind_=st["kind"], events=[e[0] for e in rec.events])
                    break
                # state as it arrived back on the mitmproxy side
                if rec.result is not None and rec.id not in preempts and tag not in unmergeable:
                    md = rec.result["metadata"]
                    inj_tag = md.get("hsim_injected")
                    # (requests to asset wrapper caps are redirected / re-pointed by the event manager itself
                    #  after the addon hooks ran: what an addon injected or rewrote there is not judged)
                    # (likewise a repeated EventQueueGet poll is answered from the replay cache)
                    wrapper = st["kind"] in ("wrapper", "eq", "eq_bad")
                    if inj_tag == tag and not parked and not wrapper:
                        if rec.result["status"] != 418 or rec.result["content"] != f"injected-{tag}".encode() \
                                or not md.get("response_injected"):
                            violate("C15/state/injected-response-lost", tag=tag, status=rec.result["status"],
                                    content=rec.result["content"][:40].decode("latin1"))
                            break
                        if rec.upstream is not None:
                            violate("C15/state/injected-response-but-upstream-contacted", tag=tag)
                            break
                    if md.get("hsim_rewritten") and st["kind"] == "wrapper" and not md.get("hsim_injected"):
                        # the event manager re-points wrapper requests at the real asset host afterwards, but it is the
                        # addon's request (path and query as rewritten) that it re-points
                        import urllib.parse as _up
                        want_path = _up.urlsplit(md["hsim_rewritten"]).path
                        seen_url = rec.upstream["url"] if rec.upstream is not None else \
                            (rec.result["headers"].get("Location") if rec.result["status"] == 307 else None)
                        if seen_url is not None:
                            res.probe("rewritten_wrapper_request")
                            if _up.urlsplit(seen_url).path != want_path:
                                violate("C15/state/rewritten-url-lost", tag=tag, kind_="wrapper", upstream=seen_url,
                                        rewritten=md["hsim_rewritten"])
                                break
                    if md.get("hsim_rewritten") and not wrapper and rec.upstream is not None \
                            and rec.upstream["url"] != md["hsim_rewritten"]:
                        violate("C15/state/rewritten-url-lost", tag=tag, upstream=rec.upstream["url"])
                        break
                    if st["kind"] == "browser" and md.get("request_injected"):
                        violate("C15/state/browser-request-trusted-as-injected", tag=tag)
                        break
                    if st["kind"] == "injected" and not md.get("request_injected"):
                        violate("C15/state/injected-flag-lost", tag=tag)
                        break
                    if rec.streamed:
                        res.probe("streamed_asset_response")
                    for a in actions:
                        if a.get("tag") == tag and a["kind"] == "hook" and a["hook"] == "response" and a["beh"] == "meta":
                            pass
            if not stopped and len({r.spec["st"]["s"] for r in world.flows}) > 1:
                res.probe("flows_of_two_sessions_interleaved")
                if cfg.get("shared_sims"):
                    res.probe("two_sessions_in_one_simulator")
            if not stopped and len(world.sm.sessions) > cfg["n_sessions"]:
                res.probe("login_created_session")
        if not stopped:
            for ctx in loop.loop_exceptions:
                exc = ctx.get("exception")
                if exc is not None and not isinstance(exc, (asyncio.CancelledError,)):
                    violate("C15/loop-exception", exc=repr(exc)[:200], msg=str(ctx.get("message"))[:160])
                    break
        n_faults = sum(1 for s in plan["steps"] if s["op"] == "req" for b in s["req_beh"] + s["resp_beh"] + [s["sub_session"], s["sub_region"]]
                       if b in ("raise", "take_raise_resume_later"))
        if n_faults:
            res.fault("scripted_exceptions", n_faults)
        res.sim_time = loop.time()
        res.steps = len(plan["steps"])
        for e in world.from_proxy_log:
            env.tr("from", round(e["t"], 5), e["type"], e["flow_id"])
        for c in world.to_proxy_log:
            env.tr("to", round(c["t"], 5), c["type"], c["flow_id"])
            env.ab("cb", c["pump"] is not None)
        for a in actions:
            env.ab(a["kind"], a.get("hook"), a.get("beh"))
        res.digest = env.digest()
        res.abstract = env.abstract_digest()
        world.shutdown()
    return res

"""C04 - packet-ID translation around injected packets is an order-preserving bijection.

World ("circuit world"): one real ``ProxiedCircuit`` (real serializer, real ``InjectionTracker``
with a small window) whose transport records the wire.  An endpoint stub emits its own packet
IDs through the simulated network (delay / duplication => reordering and retransmission at the
proxy); an injector actor makes the proxy send its own packets at scheduler-chosen instants.

Oracle: the *laws* of the statement, checked after every event over the whole in-window ID
range -- not equality with one particular allocation scheme.
"""
from __future__ import annotations

import random
import struct

from hsim.core.env import SimEnv
from hsim.core.net import Fate, draw_delay
from hsim.core.runner import RunResult

PROPERTY = "C04"
CHUNK = {"quick": 400, "thorough": 1000}
PROBES = ["whole_session_mode", "far_end_acks_an_injected_packet", "eviction", "back_with_later_injection", "ooo_below_injection", "retransmit_after_injection",
          "skip_ahead", "inject_burst", "first_copy_is_a_resend", "resent_flag_on_retransmission", "straggler_ids_checked"]
COMPONENTS = {
    "real": ["hippolyzer.lib.proxy.circuit.ProxiedCircuit.send/prepare_message",
             "hippolyzer.lib.proxy.circuit.InjectionTracker (small maxlen)",
             "hippolyzer.lib.base.message.udpserializer.UDPMessageSerializer",
             "asyncio BaseEventLoop scheduling (virtual clock)"],
    "stub": ["endpoint (packet-ID source)", "network (SimNet: delay, duplication => reordering)",
             "injector actor", "UDP transport (records the wire)"],
}
ASSUMPTIONS = [
    "packet IDs do not wrap (the tracker documents that it does not handle wrap-around)",
    "IDs at or below an injection that has been evicted from the tracker window are outside the oracle "
    "(bounded memory is by design; the property statement carves them out)",
    "endpoint IDs start at 1",
]

EP = ("10.9.0.2", 9000)
PROXY_IN = ("10.0.0.1", 12000)


def gen_session_plan(rng: random.Random, big: bool) -> dict:
    """The same translation seen from outside: a whole proxied session (real SOCKS association, session, circuit
    opened by UseCircuitCode) with injections, where the viewer also *retransmits* its UseCircuitCode - the one packet
    whose handling touches the circuit itself - and the wire IDs are judged by the ID laws on the datagrams."""
    from hsim.props.udp_common import rand_fate
    cfg = {"deferred": rng.random() < 0.8, "same_ip": False, "n_viewers": 1, "regions": [[0]], "builtin_addons": False,
           "p_delay": rng.choice([0.0, 0.3]), "p_dup": rng.choice([0.0, 0.1]), "p_garbage": 0.0, "p_corrupt": 0.0,
           "tail": 1.0}
    steps = [{"at": 0.05, "op": "ucc", "v": 0, "r": 0}]
    t = 0.1
    for _ in range(rng.randint(4, 40 if big else 24)):
        t = round(t + rng.choice([0.0, 0.001, 0.01, 0.05]), 4)
        x = rng.random()
        if x < 0.2:
            steps.append({"at": t, "op": "inject", "v": 0, "r": 0, "dir": rng.choice(["out", "in"]),
                          "reliable": rng.random() < 0.3})
        elif x < 0.3:
            steps.append({"at": t, "op": "ucc", "v": 0, "r": 0, "again": True})
        elif x < 0.34:
            # the simulator (or the viewer) tears the circuit down; what is still in flight keeps arriving afterwards
            nm = rng.choice(["CloseCircuit", "DisableSimulator"])
            steps.append({"at": t, "op": "vsend" if nm == "CloseCircuit" else "ssend", "v": 0, "r": 0, "name": nm,
                          "mseed": 0, "reliable": rng.random() < 0.5,
                          "fate": rand_fate(rng, cfg["p_delay"], cfg["p_dup"])})
        elif x < 0.45:
            steps.append({"at": t, "op": rng.choice(["vsend", "ssend"]), "v": 0, "r": 0, "name": "x", "mseed": 0,
                          "retransmit_of": rng.randrange(50), "acks": rng.choice([0, 0, 1]),
                          "fate": rand_fate(rng, cfg["p_delay"], cfg["p_dup"])})
        else:
            inbound = rng.random() < 0.5
            steps.append({"at": t, "op": "ssend" if inbound else "vsend", "v": 0, "r": 0,
                          "name": "ChatFromSimulator" if inbound else "ChatFromViewer", "text": "t", "mseed": 1,
                          "reliable": rng.random() < 0.5, "zerocoded": rng.random() < 0.3,
                          "acks": rng.choice([0, 0, 1, 2]), "fate": rand_fate(rng, cfg["p_delay"], cfg["p_dup"])})
    return {"property": PROPERTY, "mode": "session", "cfg": cfg, "steps": steps}


def gen_plan(rng: random.Random, tier: str) -> dict:
    big = tier == "thorough"
    if rng.random() < 0.12:
        return gen_session_plan(rng, big)
    r = rng.random()
    if r < 0.08:
        maxlen = 10000
    else:
        maxlen = rng.randint(2, 10)
    n = rng.randint(4, 90 if big else 50)
    p_inject = rng.choice([0.1, 0.25, 0.4, 0.6])
    p_old = rng.choice([0.0, 0.1, 0.25])
    p_skip = rng.choice([0.0, 0.05, 0.2])
    p_dup = rng.choice([0.0, 0.1, 0.3])
    p_delay = rng.choice([0.0, 0.3, 0.7])
    p_lost_original = rng.choice([0.0, 0.1, 0.3])
    p_revack = rng.choice([0.0, 0.0, 0.1, 0.25])
    steps = []
    t = 0.0
    cur = 0
    for _ in range(n):
        t = round(t + draw_delay(rng, 0.05), 4)
        if rng.random() < p_inject:
            burst = 1 if rng.random() < 0.7 else rng.randint(2, 4)
            for _ in range(burst):
                steps.append({"at": t, "op": "inject", "reliable": rng.random() < 0.3})
            continue
        if rng.random() < p_revack:
            # the far end acknowledges some of what it has seen on this direction's wire (injected packets included);
            # the acknowledgement travels the other way through the same circuit
            steps.append({"at": t, "op": "revack", "picks": [rng.randrange(12) for _ in range(rng.randint(1, 3))],
                          "form": rng.choice(["appended", "packetack", "both", "both"])})
            continue
        resent = False
        if cur and rng.random() < p_old:
            o = rng.randint(max(1, cur - 12), cur)
            resent = rng.random() < 0.7          # an endpoint retransmission carries RESENT
        else:
            cur += 1 if rng.random() >= p_skip else rng.randint(2, 4)
            o = cur
            # the original may have been lost before the proxy: the first copy it sees is already a resend
            resent = rng.random() < p_lost_original
        fate = Fate()
        if rng.random() < p_delay:
            fate.delay = draw_delay(rng, 0.08)
        if rng.random() < p_dup:
            fate.dup = draw_delay(rng, 0.2)
        st = {"at": t, "op": "ep", "id": o, "fate": fate.to_json()}
        if resent:
            st["resent"] = True
        steps.append(st)
    return {"property": PROPERTY, "maxlen": maxlen, "direction": rng.choice(["OUT", "IN"]), "steps": steps}


def simplify_step(step):
    if step["op"] not in ("ep", "inject", "revack") or "v" in step:
        if step.get("fate"):
            yield {**step, "fate": {}}
        for k in ("acks", "zerocoded", "reliable"):
            if step.get(k):
                yield {k_: v_ for k_, v_ in step.items() if k_ != k}
        return
    if step["op"] == "ep" and step.get("fate"):
        yield {**step, "fate": {}}
        f = dict(step["fate"])
        if "dup" in f:
            g = dict(f)
            del g["dup"]
            yield {**step, "fate": g}
    if step["op"] == "ep" and step.get("resent"):
        s2 = dict(step)
        s2.pop("resent")
        yield s2
    if step["op"] == "inject" and step.get("reliable"):
        yield {**step, "reliable": False}


def simplify_plan(plan):
    if plan.get("mode") == "session":
        return
    if plan["direction"] != "OUT":
        yield {**plan, "direction": "OUT"}
    # renumber times to 0,1,2.. keeping order
    ats = [s["at"] for s in plan["steps"]]
    if any(a != float(i) for i, a in enumerate(ats)) and not any(s.get("fate") for s in plan["steps"]):
        yield {**plan, "steps": [{**s, "at": float(i)} for i, s in enumerate(plan["steps"])]}


class _WireTransport:
    def __init__(self):
        self.sent = []

    def send_packet(self, packet):
        self.sent.append(packet)

    def close(self):
        pass


def run_plan(plan: dict) -> RunResult:
    if plan.get("mode") == "session":
        from hsim.props import c06
        res = c06.run_world(plan, PROPERTY, False)
        res.probe("whole_session_mode")
        return res
    from hippolyzer.lib.base.message.message import Block, Message
    from hippolyzer.lib.base.network.transport import Direction
    from hippolyzer.lib.proxy.circuit import InjectionTracker, ProxiedCircuit

    res = RunResult()
    seed = plan.get("seed", 0)
    maxlen = plan["maxlen"]
    direction = Direction[plan["direction"]]
    with SimEnv(seed) as env:
        loop, net = env.loop, env.net
        wire = _WireTransport()
        circuit = ProxiedCircuit(("10.9.0.1", 5000), ("10.9.0.3", 13000), wire)
        tracker = InjectionTracker(0, maxlen=maxlen)
        if direction == Direction.OUT:
            circuit.out_injections = tracker
        else:
            circuit.in_injections = tracker

        # ---- reference bookkeeping (independent of the tracker) -------------------
        J = []                # every injected wire ID, in injection order (ascending)
        state = {"evicted_max": 0, "max_wire": 0, "max_o": 0}
        first_eff = {}        # endpoint id -> wire id at first forward
        wire_owner = {}       # wire id -> ("ep", o) | ("inj",)
        stop = []

        def violate(kind, **d):
            if not stop:
                res.violate(kind, maxlen=maxlen, injected=list(J), **d)
                stop.append(1)

        def wire_id_of(packet) -> int:
            return struct.unpack("!I", packet.data[1:5])[0]

        def check_laws(event):
            if stop:
                return
            ev_max = state["evicted_max"]
            window = J[-maxlen:]
            Jset = set(J)
            hi_o = state["max_o"] + 3
            prev_w = 0
            prev_o = 0
            # endpoint IDs whose forwarded wire ID is at/below an evicted injection are out of contract
            o_min = max((o for o, w in first_eff.items() if w <= ev_max), default=0)
            for o in range(1, hi_o + 1):
                try:
                    w = tracker.get_effective_id(o)
                except Exception as e:
                    return violate("C04/fwd/raised", o=o, exc=repr(e), event=event)
                if o in first_eff and first_eff[o] > ev_max and w != first_eff[o]:
                    return violate("C04/fwd/unstable", o=o, first=first_eff[o], now=w, event=event)
                if w <= ev_max or o <= o_min:
                    continue
                if w in Jset:
                    return violate("C04/fwd/hits-injected", o=o, wire=w, event=event)
                if prev_w and w <= prev_w:
                    return violate("C04/fwd/not-monotone", o_prev=prev_o, w_prev=prev_w, o=o, w=w, event=event)
                prev_w, prev_o = w, o
                # back translation
                later = any(j > w for j in window)
                if later and any(j < w for j in window):
                    res.probe("back_with_later_injection")
                try:
                    back = tracker.get_original_id(w)
                except Exception as e:
                    return violate("C04/back/raised", o=o, wire=w, exc=repr(e), event=event)
                if back != o:
                    kind = "C04/back/later-injection" if later else "C04/back/wrong"
                    return violate(kind, o=o, wire=w, got=back, event=event)
            # was_injected over the live range
            for w in range(ev_max + 1, state["max_wire"] + 4):
                inj = tracker.was_injected(w)
                if inj != (w in window) and (w in window or w not in Jset):
                    return violate("C04/was-injected/wrong", wire=w, got=inj, event=event)

        def on_endpoint_packet(o, resent=False):
            if stop:
                return
            msg = Message("CompletePingCheck", Block("PingID", PingID=o & 0xFF), packet_id=o, direction=direction)
            if resent:
                from hippolyzer.lib.base.message.msgtypes import PacketFlags
                msg.send_flags |= PacketFlags.RESENT
                res.probe("first_copy_is_a_resend" if o not in first_eff else "resent_flag_on_retransmission")
            n0 = len(wire.sent)
            new_high = o > state["max_o"]
            if not new_high and J and first_eff.get(o, 0) and any(j > first_eff[o] for j in J):
                res.probe("retransmit_after_injection")
            if not new_high and o not in first_eff and J:
                expected_low = any(j > o for j in J[-maxlen:])
                if expected_low:
                    res.probe("ooo_below_injection")
            try:
                circuit.send(msg)
            except Exception as e:
                return violate("C04/fwd/send-raised", o=o, exc=repr(e))
            if len(wire.sent) != n0 + 1:
                return violate("C04/wire/count", o=o, emitted=len(wire.sent) - n0)
            w = wire_id_of(wire.sent[-1])
            env.tr("fwd", o, w)
            env.ab("F" if new_high else "O")
            state["max_o"] = max(state["max_o"], o)
            state["max_wire"] = max(state["max_wire"], w)
            owner = wire_owner.get(w)
            if owner is not None and owner != ("ep", o) and w > state["evicted_max"]:
                return violate("C04/wire/collision", o=o, wire=w, owner=list(owner))
            wire_owner.setdefault(w, ("ep", o))
            wire_order.append(w)
            first_eff.setdefault(o, w)
            check_laws(["ep", o])

        class _EP:
            def datagram_received(self, data, src):
                on_endpoint_packet(struct.unpack("!I", data[:4])[0], resent=len(data) > 4 and data[4] == 1)

        net.attach(PROXY_IN, _EP())

        def do_ep(step):
            net.send(EP, PROXY_IN, struct.pack("!IB", step["id"], 1 if step.get("resent") else 0),
                     Fate.from_json(step.get("fate")))

        def do_inject(step):
            if stop:
                return
            msg = Message("CompletePingCheck", Block("PingID", PingID=0), direction=direction)
            if step.get("reliable"):
                from hippolyzer.lib.base.message.msgtypes import PacketFlags
                msg.send_flags |= PacketFlags.RELIABLE
            n0 = len(wire.sent)
            try:
                circuit.send(msg)
            except Exception as e:
                return violate("C04/inject/raised", exc=repr(e))
            if len(wire.sent) != n0 + 1:
                return violate("C04/wire/count", inject=True, emitted=len(wire.sent) - n0)
            w = wire_id_of(wire.sent[-1])
            env.tr("inj", w)
            env.ab("I")
            if w <= state["max_wire"]:
                return violate("C04/inject/not-above-seen", wire=w, max_wire=state["max_wire"])
            if w in wire_owner:
                return violate("C04/inject/collision", wire=w, owner=list(wire_owner[w]))
            wire_owner[w] = ("inj",)
            wire_order.append(w)
            J.append(w)
            if len(J) > maxlen:
                state["evicted_max"] = J[-maxlen - 1]
                res.probe("eviction")
                env.ab("E")
            state["max_wire"] = w
            check_laws(["inject", w])

        def do_revack(step):
            if stop or not wire_order:
                return
            from hsim.stubs import lludp as L
            ids = sorted({wire_order[-1 - (k % len(wire_order))] for k in step["picks"]})
            ids = [w for w in ids if w > state["evicted_max"]]      # older ones are outside the contract
            if not ids:
                return
            rev = Direction.IN if direction == Direction.OUT else Direction.OUT
            if step["form"] == "both" and len(ids) >= 2:
                # a PacketAck that also carries piggy-backed acks; injected IDs are put into the blocks first
                inj_first = sorted(ids, key=lambda w: (wire_owner.get(w, ("inj",))[0] != "inj", w))
                k_ = max(1, len(ids) // 2)
                msg = Message("PacketAck", *[Block("Packets", ID=w) for w in inj_first[:k_]],
                              packet_id=9000 + len(wire.sent), direction=rev)
                msg.acks = tuple(inj_first[k_:])
                if all(wire_owner.get(w, ("inj",))[0] == "inj" for w in inj_first[:k_]):
                    res.probe("packetack_blocks_all_injected_with_appended_acks")
            elif step["form"] in ("packetack", "both"):
                msg = Message("PacketAck", *[Block("Packets", ID=w) for w in ids], packet_id=9000 + len(wire.sent),
                              direction=rev)
            else:
                msg = Message("CompletePingCheck", Block("PingID", PingID=1), packet_id=9000 + len(wire.sent),
                              direction=rev)
                msg.acks = tuple(ids)
            want = sorted(wire_owner[w][1] for w in ids if wire_owner.get(w, ("inj",))[0] == "ep")
            if any(wire_owner.get(w, ("inj",))[0] == "inj" for w in ids):
                res.probe("far_end_acks_an_injected_packet")
            n0 = len(wire.sent)
            try:
                circuit.send(msg)
            except Exception as e:
                return violate("C04/back/ack-translation-raised", ids=ids, exc=repr(e))
            env.ab("A", step["form"], len(ids))
            emitted = wire.sent[n0:]
            got = []
            for pkt in emitted:
                p_ = L.parse_datagram(bytes(pkt.data))
                got.extend(p_.acks)
                got.extend(L.packet_ack_ids(p_.body_plain, p_.extra_len) or [])
            del wire.sent[n0:]          # (keeps this direction's wire list to itself)
            if sorted(got) != want:
                return violate("C04/back/ack-translation", acked_wire=ids, got=sorted(got), want=want, form=step["form"])
            check_laws(["revack", ids])

        wire_order = []      # every wire ID of this direction in emission order (forwarded and injected)
        last_inject_at = None
        for step in plan["steps"]:
            if step["op"] == "ep":
                loop.call_at(step["at"], do_ep, step)
            elif step["op"] == "revack":
                loop.call_at(step["at"], do_revack, step)
            else:
                loop.call_at(step["at"], do_inject, step)
                if last_inject_at == step["at"]:
                    res.probe("inject_burst")
                last_inject_at = step["at"]
        prev = 0
        for step in plan["steps"]:
            if step["op"] == "ep":
                if step["id"] > prev + 1:
                    res.probe("skip_ahead")
                prev = max(prev, step["id"])
        why = loop.run_sim(until=10_000.0, max_iterations=200_000)
        if why == "cap":
            res.violate("HARNESS/iteration-cap")
        for t, src, dst, exc in net.escaped:
            res.violate("HARNESS/escaped", exc=repr(exc))
        res.faults = {k: v for k, v in net.fault_counts.items() if k in ("delay", "dup", "drop")}
        res.sim_time = loop.time()
        res.steps = len(plan["steps"])
        res.digest = env.digest()
        res.abstract = env.abstract_digest()
    return res

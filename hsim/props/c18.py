"""C18 - message log: filters mean what they say and the view equals the filtered log.

UDP + HTTP worlds share one proxy with a ``FilteringMessageLogger`` (small ``maxlen``) behind a
``WrappingMessageLogger`` as the GUI wires it.  Entries come from real proxied LLUDP traffic, EQ
events and HTTP flows (two producers); an operator actor interleaves ``set_filter`` (expressions
generated from a grammar subset, nesting depth <= 4, deliberately including comparisons that do not fit
the field's type), ``set_paused``, ``clear``, window overflow, export -> import, and re-filtering after
entries were frozen (pickled) and after the session that produced them is gone.

Oracle: an independent evaluator for the generated expressions over a snapshot of each entry taken when
it was logged, and a tiny model of the retention rule.
"""
from __future__ import annotations

import fnmatch
import logging
import random
from typing import Any, Dict, List, Optional

from hsim.core.env import SimEnv
from hsim.core.runner import RunResult
from hsim.props.udp_common import Driver, WireModel
from hsim.worlds.http import FlowRecord, HttpWorld
from hsim.worlds.udp import UdpWorld

PROPERTY = "C18"
CHUNK = {"quick": 10, "thorough": 24}
PROBES = ["same_filter_applied_again", "selection_dependent_filter", "second_log_window", "paused_beside_running_window", "window_overflow", "aged_out_entry_kept_visible", "refilter_after_freeze", "refilter_after_session_gone",
          "logged_while_paused_dropped", "clear", "export_import", "type_mismatch_leaf", "nested_depth_3",
          "meta_rhs", "enum_rhs", "glob_selector", "http_entry", "eq_entry", "lludp_entry", "filter_true_and_false_seen",
          "not_node", "or_node", "and_node"]
COMPONENTS = {
    "real": ["message_filter.compile_filter (PEG grammar + visitor), Not/Or/And/MessageFilterNode.match",
             "FilteringMessageLogger (add_log_entry / set_filter / set_paused / clear), WrappingMessageLogger",
             "LLUDPMessageLogEntry / HTTPMessageLogEntry / EQMessageLogEntry (matches, _val_matches, _get_meta, freeze / "
             "message thaw, to_dict / from_dict)", "export_log_entries / import_log_entries",
             "the proxy's logging call sites (lludp_proxy, http_event_manager)"],
    "stub": ["operator (GUI) actions", "viewer / simulator UDP endpoints", "viewer HTTP client + origin", "network, queues"],
}
ASSUMPTIONS = [
    "the program quantifier (all filter trees) is only exercised as far as the generated grammar subset goes; the "
    "simulation contributes the history / two-producer / entry-lifetime dimension",
    "comparison semantics where applicable: ==/!= Python equality (UUIDs as strings), ^= $= ~= on str/str or "
    "bytes/bytes, ordering on number/number or str/str, & on int/int; everything else is 'cannot be applied' = false",
    "entries are snapshotted (via Message.to_dict) when logged; later evaluations are judged against the snapshot",
]

# ----------------------------------------------------------------------------------------
# filter expressions: generated as trees, rendered to text, evaluated independently
# ----------------------------------------------------------------------------------------
LEAVES = [
    # (selector, op, literal-text, literal-python-value or special)
    ("name", "ChatFromViewer"), ("name", "ChatFromSimulator"), ("name", "Chat*"), ("name", "*"), ("name", "LLUDP"),
    ("name", "HTTP"), ("name", "EQ"), ("name", "*Reply"), ("name", "Hsim*"), ("name", "GetMetadata"), ("name", "Agent*"),
    ("cmp", "Meta.Type", "==", "'LLUDP'"), ("cmp", "Meta.Type", "!=", "'HTTP'"), ("cmp", "Meta.Method", "==", "'IN'"),
    ("cmp", "Meta.Method", "==", "'POST'"), ("cmp", "Meta.Reliable", "&", "64"), ("cmp", "Meta.Zerocoded", "==", "128"),
    ("un", "Meta.Synthetic"), ("un", "Meta.Reliable"), ("cmp", "Meta.Status", "==", "200"), ("cmp", "Meta.Status", ">=", "400"),
    ("cmp", "Meta.Status", "<", "'x'"), ("cmp", "Meta.Url", "~=", "'cap'"), ("cmp", "Meta.Host", "^=", "'sim'"),
    ("cmp", "Meta.Host", "$=", "'invalid'"), ("cmp", "Meta.ReqHeaders.X-Tag", "==", "'1'"),
    ("cmp", "Meta.ReqHeaders.X-Nope", "==", "'1'"), ("cmp", "Meta.AgentID", "==", "AGENT"),
    ("cmp", "Meta.SelectedLocal", "<", "5"), ("cmp", "Meta.AgentLocal", "^=", "'x'"), ("cmp", "Meta.Nope", "==", "1"),
    ("cmp", "Meta.Type", "&", "1"), ("cmp", "Meta.Status", "^=", "'2'"), ("cmp", "Meta.Method", ">", "3"),
    # resolved when the filter is evaluated, not when the entry was logged: the answer moves with the selection
    ("cmp", "Meta.CurrentSelectedLocal", "==", "5"), ("cmp", "Meta.CurrentSelectedLocal", "!=", "5"),
    ("un", "Meta.CurrentSelectedLocal"), ("cmp", "Meta.CurrentSelectedLocal", "<", "9"),
    ("cmp", "ChatFromViewer.ChatData.Channel", "==", "3"), ("cmp", "ChatFromViewer.ChatData.Channel", ">", "2"),
    ("cmp", "ChatFromViewer.ChatData.Channel", "<=", "0"), ("cmp", "ChatFromViewer.ChatData.Channel", "&", "1"),
    ("cmp", "ChatFromViewer.ChatData.Channel", "!=", "7"), ("cmp", "*.ChatData.Message", "~=", "'ell'"),
    ("cmp", "*.ChatData.Message", "==", "'hello 1'"), ("cmp", "Chat*.ChatData.Message", "^=", "'he'"),
    ("cmp", "Chat*.ChatData.Message", "$=", "'2'"), ("cmp", "ChatFromSimulator.ChatData.ChatType", "==", "ChatType.OWNER"),
    ("cmp", "ChatFromSimulator.ChatData.ChatType", "==", "1"), ("cmp", "ChatFromViewer.AgentData.AgentID", "==", "Meta.AgentID"),
    ("cmp", "ChatFromViewer.AgentData.AgentID", "==", "AGENT"), ("cmp", "ChatFromSimulator.ChatData.FromName", "==", "'obj'"),
    ("cmp", "ChatFromSimulator.ChatData.Audible", ">=", "1"), ("cmp", "ChatFromSimulator.ChatData.Position", "==", "(1.0, 2.0, 3.0)"),
    ("cmp", "ChatFromSimulator.ChatData.Position", "!=", "(1.0, 2.0, 3.0)"),
    ("un", "ChatFromViewer.ChatData.Message"), ("un", "*.*.Nope"), ("un", "*.AgentData.AgentID"), ("un", "*.ChatData.Channel"),
    ("cmp", "*.*.ID", "==", "5"), ("cmp", "*.*.*", "==", "1"), ("cmp", "*.*.*", "==", "'hello 1'"),
    # comparisons that cannot be applied to the field's type: must be false, never an error
    ("cmp", "ChatFromViewer.ChatData.Channel", "^=", "'x'"), ("cmp", "ChatFromViewer.ChatData.Channel", "$=", "'x'"),
    ("cmp", "ChatFromViewer.ChatData.Channel", "~=", "1"), ("cmp", "ChatFromViewer.ChatData.Channel", "<", "'x'"),
    ("cmp", "ChatFromViewer.ChatData.Message", "<", "5"), ("cmp", "ChatFromViewer.ChatData.Message", "&", "1"),
    ("cmp", "ChatFromViewer.ChatData.Message", ">=", "2"), ("cmp", "*.ChatData.Message", "~=", "1"),
    ("cmp", "ChatFromViewer.AgentData.AgentID", "<", "3"), ("cmp", "*.ChatData.*", "^=", "'he'"), ("cmp", "*.*.*", "<", "'m'"),
    ("cmp", "*.*.*", "&", "1"), ("cmp", "*.*.*", "~=", "'ell'"),
]
MISMATCH_FROM = next(i for i, l in enumerate(LEAVES) if l[1:] == ("ChatFromViewer.ChatData.Channel", "^=", "'x'"))


def gen_tree(rng: random.Random, depth: int):
    if depth <= 0 or rng.random() < 0.35:
        return ["leaf", rng.randrange(len(LEAVES))]
    k = rng.random()
    if k < 0.25:
        return ["not", gen_tree(rng, depth - 1)]
    return ["and" if k < 0.6 else "or", gen_tree(rng, depth - 1), gen_tree(rng, depth - 1)]


def tree_depth(t) -> int:
    return 0 if t[0] == "leaf" else 1 + max(tree_depth(c) for c in t[1:])


def render(t, agent_id: str) -> str:
    if t[0] == "leaf":
        leaf = LEAVES[t[1]]
        if leaf[0] == "name":
            return leaf[1]
        if leaf[0] == "un":
            return leaf[1]
        lit = leaf[3]
        if lit == "AGENT":
            lit = repr(agent_id)
        return f"{leaf[1]} {leaf[2]} {lit}"
    if t[0] == "not":
        return f"!({render(t[1], agent_id)})"
    op = "&&" if t[0] == "and" else "||"
    return f"({render(t[1], agent_id)}) {op} ({render(t[2], agent_id)})"


class Snapshot:
    """What an entry looked like when it was logged (the oracle's data)."""
    __slots__ = ("type", "name", "meta", "blocks", "headers", "extended", "serial", "session_alive", "undecodable")

    def __init__(self):
        self.type = ""
        self.name = ""
        self.meta: Dict[str, Any] = {}
        self.blocks: Optional[Dict[str, List[Dict[str, Any]]]] = None
        self.headers: Dict[str, str] = {}
        self.extended = None
        self.session_alive = True
        self.undecodable = False      # header fine, body could not be parsed (damaged in flight)


class Undecodable(Exception):
    """A leaf needed the fields of a message whose body cannot be decoded."""


def shown(tree, snap, agent_id) -> bool:
    """What the log shows: an entry the filter cannot be evaluated on is simply not shown (evaluation order as written,
    left to right with short-circuiting, as the logger evaluates it)."""
    try:
        return eval_tree(tree, snap, agent_id)
    except Undecodable:
        return False


NOW = {"selected": None}     # what is selected in the viewer right now (set by the "select" op)


def norm(v):
    import uuid as _uuid
    if isinstance(v, _uuid.UUID):
        return str(v)
    if hasattr(v, "data") and callable(getattr(v, "data")) and not isinstance(v, (bytes, str)):
        try:
            return tuple(v.data())
        except Exception:
            return v
    return v


def applies(op: Optional[str], val, exp) -> bool:
    """Denotation of one comparison on one field; 'cannot be applied' is False."""
    val, exp = norm(val), norm(exp)
    if op is None:
        return bool(val)
    num = lambda x: isinstance(x, (int, float)) and not isinstance(x, bool)  # noqa: E731
    if op == "==":
        return _eq(val, exp)
    if op == "!=":
        return not _eq(val, exp)
    if op == "~=" and isinstance(val, bytes) and isinstance(exp, str):
        # stringy bytes are searched as text
        return exp in val.rstrip(b"\x00").decode("utf8", errors="replace")
    if op in ("^=", "$=", "~="):
        if isinstance(val, str) and isinstance(exp, str) or (isinstance(val, bytes) and isinstance(exp, bytes)):
            return {"^=": val.startswith, "$=": val.endswith, "~=": lambda e: e in val}[op](exp)
        return False
    if op in ("<", "<=", ">", ">="):
        ok = (num(val) or isinstance(val, bool)) and (num(exp) or isinstance(exp, bool)) or (
            isinstance(val, str) and isinstance(exp, str))
        if not ok:
            return False
        return {"<": val < exp, "<=": val <= exp, ">": val > exp, ">=": val >= exp}[op]
    if op == "&":
        if isinstance(val, int) and isinstance(exp, int):
            return bool(val & exp)
        return False
    raise ValueError(op)


def _eq(a, b) -> bool:
    if isinstance(a, bytes) and isinstance(b, str):
        try:
            return a.rstrip(b"\x00").decode("utf8", errors="replace") == b
        except Exception:
            return False
    if isinstance(a, tuple) and isinstance(b, tuple):
        return len(a) == len(b) and all(float(x) == float(y) for x, y in zip(a, b))
    try:
        return bool(a == b)
    except Exception:
        return False


def leaf_value(leaf, snap: Snapshot, agent_id: str):
    lit = leaf[3]
    if lit == "AGENT":
        return agent_id
    if lit.startswith("Meta."):
        return meta_value(snap, lit.split(".")[1:])
    if lit == "ChatType.OWNER":
        return 8
    import ast
    return ast.literal_eval(lit)


MISSING = object()


def meta_value(snap: Snapshot, path: List[str]):
    if len(path) == 1:
        if path[0] == "CurrentSelectedLocal":
            return NOW["selected"] if snap.session_alive else None
        return snap.meta.get(path[0])
    if len(path) == 2 and path[0] == "ReqHeaders":
        for k, v in snap.headers.items():
            if k.lower() == path[1].lower():
                return v
        return None if snap.type == "HTTP" else MISSING
    return MISSING


def eval_leaf(leaf, snap: Snapshot, agent_id: str) -> bool:
    if leaf[0] == "name":
        return fnmatch.fnmatchcase(snap.name, leaf[1]) or fnmatch.fnmatchcase(snap.type, leaf[1])
    sel = leaf[1].split(".")
    op = leaf[2] if leaf[0] == "cmp" else None
    exp = leaf_value(leaf, snap, agent_id) if leaf[0] == "cmp" else None
    if exp is MISSING:
        exp = None
    if sel[0] == "Meta":
        v = meta_value(snap, sel[1:])
        if v is MISSING:
            return False
        return applies(op, v, exp)
    # message field selector: only LLUDP entries have fields
    if snap.undecodable and (fnmatch.fnmatchcase(snap.name, sel[0]) or fnmatch.fnmatchcase(snap.type, sel[0])):
        raise Undecodable()
    if snap.blocks is None:
        return False
    if not (fnmatch.fnmatchcase(snap.name, sel[0]) or fnmatch.fnmatchcase(snap.type, sel[0])):
        return False
    for bname, blocks in snap.blocks.items():
        if not fnmatch.fnmatchcase(bname, sel[1]):
            continue
        for b in blocks:
            for vname, val in b.items():
                if not fnmatch.fnmatchcase(vname, sel[2]):
                    continue
                if leaf[0] == "un":
                    return True          # existence
                if applies(op, val, exp):
                    return True
    return False


def eval_tree(t, snap: Snapshot, agent_id: str) -> bool:
    if t[0] == "leaf":
        return eval_leaf(LEAVES[t[1]], snap, agent_id)
    if t[0] == "not":
        return not eval_tree(t[1], snap, agent_id)
    if t[0] == "and":
        return eval_tree(t[1], snap, agent_id) and eval_tree(t[2], snap, agent_id)
    return eval_tree(t[1], snap, agent_id) or eval_tree(t[2], snap, agent_id)


def leaves_of(t):
    if t[0] == "leaf":
        yield t[1]
    else:
        for c in t[1:]:
            yield from leaves_of(c)


# ----------------------------------------------------------------------------------------
def gen_plan(rng: random.Random, tier: str) -> dict:
    big = tier == "thorough"
    cfg = {"deferred": rng.random() < 0.8, "same_ip": False, "n_viewers": 1, "regions": [[0]],
           "maxlen": rng.choice([4, 6, 10, 30]), "queue_latency": rng.choice([0.0, 0.005]),
           # another log window on the same wrapper, attached before or after ours, showing everything or only chat
           "second_window": rng.choice([None, None, "after", "before", "before_chat"]),
           "latency_seed": rng.randrange(1 << 30), "tail": 0.4}
    n = rng.randint(6, 70 if big else 36)
    steps = [{"at": 0.05, "op": "ucc", "v": 0, "r": 0}]
    t = 0.1
    k = 0
    for _ in range(n):
        t = round(t + rng.choice([0.0, 0.002, 0.01, 0.03]), 4)
        x = rng.random()
        if x < 0.04:
            steps.append({"at": t, "op": "select", "local": rng.choice([None, 5, 5, 7, 12])})
        elif x > 0.965:
            # the proxy sends a packet of its own on the circuit: every later forwarded packet in that direction is
            # renumbered on its way out - after it was logged
            steps.append({"at": t, "op": "inject", "dir": rng.choice(["in", "out"])})
        elif x < 0.07 and any(s_["op"] == "filter" for s_ in steps):
            # the operator presses return in the filter box again (same text): the view is re-evaluated
            last = [s_ for s_ in steps if s_["op"] == "filter"][-1]
            steps.append({"at": t, "op": "filter", "tree": last["tree"], "again": True})
        elif x < 0.2:
            tree = gen_tree(rng, rng.choice([0, 1, 2, 3, 4]))
            if rng.random() < 0.12:
                cs = [i for i, l in enumerate(LEAVES) if "CurrentSelectedLocal" in l[1]]
                tree = ["leaf", rng.choice(cs)] if rng.random() < 0.5 else ["and", tree, ["leaf", rng.choice(cs)]]
            steps.append({"at": t, "op": "filter", "tree": tree})
        elif x < 0.25:
            steps.append({"at": t, "op": "pause", "on": rng.random() < 0.6})
        elif x < 0.28:
            steps.append({"at": t, "op": "clear"})
        elif x < 0.33:
            steps.append({"at": t, "op": "export"})
        elif x < 0.35:
            steps.append({"at": t, "op": "disconnect", "v": 0})
        elif x < 0.47:
            k += 1
            steps.append({"at": t, "op": "http", "tag": k % 3, "status": rng.choice([200, 200, 404, 500]),
                          "cap": rng.choice(["GetMetadata", "FetchInventory2", None])})
        elif x < 0.55:
            k += 1
            steps.append({"at": t, "op": "eq", "events": [{"name": rng.choice(["HsimEvent", "HsimOther", "ParcelFoo"]),
                                                           "n": k + j} for j in range(rng.randint(1, 2))]})
        else:
            k += 1
            inbound = rng.random() < 0.5
            y = rng.random()
            if y < 0.6:
                st = {"at": t, "op": "ssend" if inbound else "vsend", "v": 0, "r": 0,
                      "name": "ChatFromSimulator" if inbound else "ChatFromViewer",
                      "text": rng.choice(["hello 1", "hello 2", "bye", "he", ""]), "channel": rng.choice([0, 1, 3, 7, -2]),
                      "chat_type": rng.choice([1, 8]), "mseed": rng.randrange(1 << 30),
                      "reliable": rng.random() < 0.4, "zerocoded": rng.random() < 0.4}
            else:
                from hsim.gen import messages as G
                st = {"at": t, "op": "ssend" if inbound else "vsend", "v": 0, "r": 0,
                      "name": rng.choice(G.filler_names(inbound)), "mseed": rng.randrange(1 << 30),
                      "reliable": rng.random() < 0.4, "zerocoded": rng.random() < 0.4,
                      "tricky": rng.random() < 0.2}
                if rng.random() < 0.08:
                    # body damaged in flight: the header still names the message, its fields cannot be read
                    st["corrupt"] = {"kind": "truncate", "n": rng.randint(1, 6)}
            steps.append(st)
    return {"property": PROPERTY, "cfg": cfg, "steps": steps}


def simplify_step(step):
    if step.get("op") == "filter":
        t = step["tree"]
        if t[0] != "leaf":
            for c in t[1:]:
                yield {**step, "tree": c}
    for k in ("reliable", "zerocoded", "tricky"):
        if step.get(k):
            s = dict(step)
            s.pop(k)
            yield s
    if step.get("op") == "eq" and len(step["events"]) > 1:
        yield {**step, "events": step["events"][:1]}


def simplify_plan(plan):
    cfg = plan["cfg"]
    if cfg["queue_latency"]:
        yield {**plan, "cfg": {**cfg, "queue_latency": 0.0}}
    if not cfg.get("deferred"):
        yield {**plan, "cfg": {**cfg, "deferred": True}}
    if cfg["maxlen"] != 30:
        yield {**plan, "cfg": {**cfg, "maxlen": 30}}
    if cfg.get("second_window"):
        yield {**plan, "cfg": {**cfg, "second_window": None}}
        if cfg["second_window"] == "before_chat":
            yield {**plan, "cfg": {**cfg, "second_window": "before"}}


def run_plan(plan: dict) -> RunResult:
    import mitmproxy.http
    from hippolyzer.lib.base import llsd
    from hippolyzer.lib.proxy.message_logger import (FilteringMessageLogger, WrappingMessageLogger, export_log_entries,
                                                     import_log_entries)

    res = RunResult()
    NOW["selected"] = None
    cfg = plan["cfg"]
    stopped = []

    def violate(kind, /, **d):
        if not stopped:
            res.violate(kind, **d)
            stopped.append(1)

    with SimEnv(plan.get("seed", 0), log_level=logging.ERROR) as env:
        loop = env.loop
        snaps: Dict[int, Snapshot] = {}
        serial = [0]                    # arrival numbers (the harness keeps NO reference to entries the model has let go:
        #                                 the real logger must be free to release them, and their addresses to be reused)
        model = {"ring": [], "visible": [], "paused": False, "tree": ["leaf", LEAVES.index(("name", "*"))],
                 "filter_text": ""}
        state = {"session_gone": False, "seen_true": False, "seen_false": False}

        class ObservedLogger(FilteringMessageLogger):
            """The real logger; only notes what add_log_entry returned."""

            def add_log_entry(self, entry):
                ret = super().add_log_entry(entry)
                offered.append(bool(ret))
                return ret

        offered: List[bool] = []

        class ObservedWrapper(WrappingMessageLogger):
            """The real wrapper every producer logs through; each entry handed to it is snapshotted for the oracle and
            the model of *our* window is advanced, whether or not the entry ever reached that window."""

            def add_log_entry(self, entry):
                try:
                    snap = take_snapshot(entry)
                except Exception as ex:
                    import traceback
                    violate("HARNESS/snapshot-raised", exc=repr(ex)[:200], tb=traceback.format_exc()[-600:])
                    return super().add_log_entry(entry)
                was_paused = flogger.paused
                del offered[:]
                try:
                    super().add_log_entry(entry)
                except Exception:
                    # (a damaged entry may make the wrapper's own summary caching fail after the windows took it: the
                    #  windows' state is judged all the same)
                    res.probe("wrapper_raised_after_offering")
                ret = offered[-1] if offered else None
                if not was_paused:
                    serial[0] += 1
                    snap.serial = serial[0]
                    snaps[id(entry)] = snap
                    ring = model["ring"]
                    ring.append(entry)
                    if len(ring) > cfg["maxlen"]:
                        gone = ring.pop(0)
                        res.probe("window_overflow")
                        if any(gone is v for v in model["visible"]):
                            res.probe("aged_out_entry_kept_visible")
                    if stopped:
                        return
                    try:
                        snap.session_alive = entry.session is not None
                        want = shown(model["tree"], snap, agent_id)
                        if snap.undecodable:
                            try:
                                eval_tree(model["tree"], snap, agent_id)
                            except Undecodable:
                                state["expected_filter_failures"] = state.get("expected_filter_failures", 0) + 1
                                res.probe("filter_not_evaluable_on_damaged_entry")
                    except Exception as e:
                        violate("HARNESS/evaluator-raised", exc=repr(e)[:200], filter=model["filter_text"])
                        return
                    if want:
                        model["visible"].append(entry)
                    gone = None
                    prune()
                    if ret is None:
                        return violate("C18/view/entry-never-offered-to-window", entry=snap.name, type_=snap.type,
                                       windows=len(self.loggers))
                    if bool(ret) != want:
                        failed = [r for r in env.log.records if str(r.msg).startswith("Failed to filter queued message")]
                        if len(failed) > state.get("expected_filter_failures", 0):
                            exc = failed[-1].exc_info[1] if failed[-1].exc_info else None
                            violate("C18/filter/raised-while-logging", filter=model["filter_text"], entry=snap.name,
                                    exc=repr(exc)[:160], type_=snap.type)
                        else:
                            violate("C18/filter/wrong-result-while-logging", filter=model["filter_text"], entry=snap.name,
                                    got=bool(ret), want=want, type_=snap.type)
                else:
                    res.probe("paused_beside_running_window")
                    if ret:
                        violate("C18/view/logged-while-paused", entry=snap.name, type_=snap.type)

        def take_snapshot(entry) -> Snapshot:
            s = Snapshot()
            s.type = entry.type
            s.name = entry.name
            if entry.type == "LLUDP":
                res.probe("lludp_entry")
                # (looked at through a copy: reading the logged message itself would parse its body, and whether a body
                #  had been parsed before the entry was frozen is part of what is being tested)
                import copy as _copy
                if entry.message.raw_body is not None:
                    res.probe("entry_logged_with_unparsed_body")
                msg = _copy.deepcopy(entry.message)
                try:
                    d = msg.to_dict(extended=True)
                    s.extended = d
                    s.blocks = {bn: [dict(b) for b in bl] for bn, bl in d["body"].items()}
                except Exception:
                    s.undecodable = True
                    res.probe("entry_with_undecodable_body")
                s.meta = {"Type": "LLUDP", "Method": msg.direction.name, "AgentID": entry.meta.get("AgentID"),
                          "Reliable": int(msg.reliable), "Zerocoded": int(msg.zerocoded), "Synthetic": bool(msg.synthetic),
                          "Resent": int(msg.resent), "Dropped": bool(msg.dropped), "SelectedLocal": None, "AgentLocal": None,
                          "RegionName": entry.meta.get("RegionName"), "SessionID": entry.meta.get("SessionID")}
            elif entry.type == "HTTP":
                res.probe("http_entry")
                flow = entry.flow
                s.headers = dict(flow.request.headers.items())
                s.meta = {"Type": "HTTP", "Method": flow.request.method, "Url": flow.request.url,
                          "Host": flow.request.host.lower(), "Status": flow.response.status_code,
                          "AgentID": entry.meta.get("AgentID"), "Synthetic": bool(flow.request_injected),
                          "SelectedLocal": None, "AgentLocal": None, "RegionName": entry.meta.get("RegionName"),
                          "SessionID": entry.meta.get("SessionID")}
            else:
                res.probe("eq_entry")
                s.meta = {"Type": "EQ", "Method": "", "AgentID": entry.meta.get("AgentID"), "SelectedLocal": None,
                          "AgentLocal": None, "RegionName": entry.meta.get("RegionName"), "SessionID": entry.meta.get("SessionID")}
            return s

        flogger = ObservedLogger(maxlen=cfg["maxlen"])
        wrapper = ObservedWrapper()
        wrapper.loggers.append(flogger)
        if cfg.get("second_window"):
            # the GUI attaches every log window to one wrapper: a second window that is never paused keeps the
            # wrapper as a whole un-paused while ours is
            other = FilteringMessageLogger(maxlen=50)
            if cfg["second_window"] in ("before", "before_chat"):
                wrapper.loggers.insert(0, other)
                res.probe("second_log_window_attached_first")
                if cfg["second_window"] == "before_chat":
                    other.set_filter("Chat*")
            else:
                wrapper.loggers.append(other)
            res.probe("second_log_window")
        world = UdpWorld(env, cfg, logger=wrapper)
        wmodel = WireModel(world, eager=not cfg.get("deferred", True))
        spec = world.login(0, cfg["regions"][0])
        wmodel.add_session(spec)
        agent_id = str(spec.session.agent_id)
        viewer = world.add_viewer(0)
        viewer.session_idx = 0
        viewer.connect()
        loop.run_sim(until=0.02)
        if viewer.state != "ready":
            res.violate("HARNESS/socks-handshake")
            return res
        wmodel.assoc(viewer)
        http = HttpWorld(env, cfg, sm=world.sm)
        region = spec.session.regions[0]
        caps = {n: f"https://sim0.example.invalid:12043/cap/{n.lower()}" for n in ("GetMetadata", "FetchInventory2", "EventQueueGet")}
        region.update_caps(caps)
        http.start()
        driver = Driver(world, wmodel, res)

        def origin(rec: FlowRecord, request):
            st = rec.spec["st"]
            if st["op"] == "eq":
                body = {"id": 1000 + rec.idx, "events": [{"message": e["name"], "body": {"n": e["n"]}} for e in st["events"]]}
                return mitmproxy.http.Response.make(200, llsd.format_xml(body), {"Content-Type": "application/llsd+xml"})
            return mitmproxy.http.Response.make(st["status"], llsd.format_xml({"ok": st["tag"]}),
                                                {"Content-Type": "application/llsd+xml"})
        http.origin = origin

        # ---- checks -------------------------------------------------------------------------------------
        def check_view(after: str):
            if stopped:
                return
            got = list(flogger)
            want = model["visible"]
            if len(got) != len(set(map(id, got))):
                return violate("C18/view/duplicate-entry", after=after, filter=model["filter_text"])
            if [id(e) for e in got] != [id(e) for e in want]:
                gi, wi = [order_index(e) for e in got], [order_index(e) for e in want]
                kind = "C18/view/not-equal-to-filtered-log"
                if sorted(gi) == sorted(wi):
                    kind = "C18/view/out-of-arrival-order"
                return violate(kind, after=after, filter=model["filter_text"], got=gi, want=wi,
                               ring=[order_index(e) for e in model["ring"]])
            raw = list(flogger._raw_entries)
            if [id(e) for e in raw] != [id(e) for e in model["ring"]]:
                return violate("C18/view/retention", after=after, got=[order_index(e) for e in raw],
                               want=[order_index(e) for e in model["ring"]])

        def order_index(e):
            sn = snaps.get(id(e))
            return sn.serial if sn is not None else -1

        def prune():
            """Forget every entry the model no longer retains."""
            live = {id(e) for e in model["ring"]} | {id(e) for e in model["visible"]}
            for k in [k for k in snaps if k not in live]:
                del snaps[k]

        def check_matches(after: str):
            """match(entry, short_circuit=True/False) agree as booleans and equal the evaluator, without raising."""
            if stopped:
                return
            f = flogger.filter
            seen = set()
            for e in list(model["ring"]) + list(model["visible"]):
                if id(e) in seen:
                    continue
                seen.add(id(e))
                snap = snaps[id(e)]
                if snap.undecodable:
                    continue        # (whether the logger shows it is judged through the view)
                snap.session_alive = e.session is not None
                want = eval_tree(model["tree"], snap, agent_id)
                state["seen_true" if want else "seen_false"] = True
                results = []
                for sc in (True, False):
                    try:
                        results.append(bool(f.match(e, sc)))
                    except Exception as ex:
                        bad = [LEAVES[i] for i in leaves_of(model["tree"])]
                        return violate("C18/filter/raised", after=after, filter=model["filter_text"], entry=snap.name,
                                       type_=snap.type, exc=repr(ex)[:160], short_circuit=sc)
                if results[0] != results[1]:
                    return violate("C18/filter/short-circuit-disagrees", filter=model["filter_text"], entry=snap.name,
                                   short=results[0], full=results[1])
                if results[0] != want:
                    return violate("C18/filter/wrong-result", after=after, filter=model["filter_text"], entry=snap.name,
                                   type_=snap.type, got=results[0], want=want,
                                   blocks=repr(snap.blocks)[:300], meta={k: repr(v)[:40] for k, v in snap.meta.items()})
            if state["seen_true"] and state["seen_false"]:
                res.probe("filter_true_and_false_seen")

        # ---- operator ops -----------------------------------------------------------------------------------
        def op_filter(st):
            tree = st["tree"]
            text = render(tree, agent_id)
            res.fault("operator_set_filter")
            for i in leaves_of(tree):
                leaf = LEAVES[i]
                if i >= MISMATCH_FROM or leaf[1:] in (("Meta.Status", "<", "'x'"), ("Meta.Type", "&", "1"),
                                                      ("Meta.Status", "^=", "'2'"), ("Meta.Method", ">", "3"),
                                                      ("Meta.SelectedLocal", "<", "5")):
                    res.probe("type_mismatch_leaf")
                if leaf[0] == "cmp" and leaf[3].startswith("Meta."):
                    res.probe("meta_rhs")
                if leaf[0] == "cmp" and leaf[3] == "ChatType.OWNER":
                    res.probe("enum_rhs")
                if "*" in leaf[1]:
                    res.probe("glob_selector")
            if tree_depth(tree) >= 3:
                res.probe("nested_depth_3")
            for kind_ in ("not", "or", "and"):
                if kind_ in repr(tree):
                    res.probe(kind_ + "_node")
            if model["ring"]:
                res.probe("refilter_after_freeze")
                if state["session_gone"]:
                    res.probe("refilter_after_session_gone")
            # model first (what the view must become)
            old_visible = model["visible"]
            if st.get("again"):
                res.probe("same_filter_applied_again")
            if any("CurrentSelectedLocal" in LEAVES[i][1] for i in leaves_of(tree)):
                res.probe("selection_dependent_filter")
            try:
                for e in list(old_visible) + list(model["ring"]):
                    snaps[id(e)].session_alive = e.session is not None
                for e in [e for e in old_visible if not any(e is r for r in model["ring"])] + list(model["ring"]):
                    if snaps[id(e)].undecodable:
                        try:
                            eval_tree(tree, snaps[id(e)], agent_id)
                        except Undecodable:
                            # (each failed evaluation is logged by the logger; that is not an error of the filter)
                            state["expected_filter_failures"] = state.get("expected_filter_failures", 0) + 1
                            res.probe("refilter_over_damaged_entry")
                aged = [e for e in old_visible if not any(e is r for r in model["ring"])
                        and shown(tree, snaps[id(e)], agent_id)]
                fresh = [e for e in model["ring"] if shown(tree, snaps[id(e)], agent_id)]
            except Exception as ex:
                return violate("HARNESS/evaluator-raised", exc=repr(ex)[:200], filter=text)
            model["tree"], model["filter_text"], model["visible"] = tree, text, aged + fresh
            old_visible = aged = fresh = None
            prune()
            try:
                flogger.set_filter(text)
            except Exception as ex:
                return violate("C18/filter/set_filter-raised", filter=text, exc=repr(ex)[:200])
            check_matches("set_filter")
            check_view("set_filter")

        def op_select(st):
            # what the app's selection tracking does when the viewer (de)selects an object
            res.fault("operator_selects_object")
            spec.session.selected.object_local = st["local"]
            NOW["selected"] = st["local"]

        def op_pause(st):
            flogger.set_paused(st["on"])
            model["paused"] = st["on"]

        def op_clear(st):
            res.probe("clear")
            flogger.clear()
            model["ring"], model["visible"] = [], []
            prune()
            check_view("clear")

        def op_export(st):
            entries = [e for e in flogger if not snaps[id(e)].undecodable]
            if not entries:
                return
            res.probe("export_import")
            try:
                blob = export_log_entries(entries)
                back = import_log_entries(blob)
            except Exception as ex:
                return violate("C18/export/raised", exc=repr(ex)[:200], names=[snaps[id(e)].name for e in entries][:6])
            if len(back) != len(entries):
                return violate("C18/export/count", got=len(back), want=len(entries))
            for e, b in zip(entries, back):
                snap = snaps[id(e)]
                if b.type != snap.type or b.name != snap.name:
                    return violate("C18/export/identity", got=[b.type, b.name], want=[snap.type, snap.name])
                if snap.type == "LLUDP":
                    got = b.message.to_dict(extended=True)
                    if not dicts_equal(got, snap.extended):
                        return violate("C18/export/message-changed", name=snap.name, want=repr(snap.extended)[-300:],
                                       got=repr(got)[-300:])
                for key in ("Type", "Method", "RegionName"):
                    if b.meta.get(key) != e.meta.get(key):
                        return violate("C18/export/meta-changed", key=key, got=repr(b.meta.get(key)), want=repr(e.meta.get(key)))
                if str(b.meta.get("AgentID")) != str(e.meta.get("AgentID")):
                    return violate("C18/export/meta-changed", key="AgentID")
            # frozen (pickled) LLUDP messages thaw to what was logged
            for e in entries:
                snap = snaps[id(e)]
                if snap.type == "LLUDP":
                    try:
                        thawed = e.message.to_dict(extended=True)
                    except Exception as ex:
                        return violate("C18/thaw/raised", name=snap.name, exc=repr(ex)[:160])
                    if not dicts_equal(thawed, snap.extended, ignore=("dropped",)):
                        return violate("C18/thaw/message-changed", name=snap.name, want=repr(snap.extended)[:300],
                                       got=repr(thawed)[:300])

        def dicts_equal(a, b, ignore=()):
            a = {k: v for k, v in a.items() if k not in ignore and k != "meta"}
            b = {k: v for k, v in b.items() if k not in ignore and k != "meta"}
            for d in (a, b):
                # header extra bytes / acks: same octets / same IDs, whatever sequence type carries them
                if "extra" in d:
                    d["extra"] = bytes(d["extra"])
                if "acks" in d:
                    d["acks"] = tuple(d["acks"])
            return repr(_canon(a)) == repr(_canon(b))

        def _canon(x):
            if isinstance(x, dict):
                return {k: _canon(v) for k, v in sorted(x.items())}
            if isinstance(x, (list, tuple)):
                return [_canon(v) for v in x]
            if isinstance(x, float):
                return float(repr(x))
            if hasattr(x, "data") and callable(getattr(x, "data")) and not isinstance(x, (bytes, str)):
                return [float(v) for v in x.data()]
            if isinstance(x, bytes):
                return bytes(x)
            if type(x).__name__ == "UUID":
                return str(x)
            if isinstance(x, int) and not isinstance(x, bool):
                return int(x)
            return x

        def op_inject(st):
            from hippolyzer.lib.base.datatypes import UUID
            from hippolyzer.lib.base.message.message import Block, Message
            from hippolyzer.lib.base.network.transport import Direction
            region_ = spec.session.regions[0]
            if region_.circuit is None or not region_.circuit.is_alive or viewer.proxy_udp not in world.net.transports:
                return
            res.fault("proxy_injection")
            if st["dir"] == "in":
                msg = Message("ChatFromSimulator", Block("ChatData", FromName="inj", SourceID=UUID(int=1), OwnerID=UUID(int=2),
                                                         SourceType=1, ChatType=1, Audible=1, Position=(0.0, 0.0, 0.0),
                                                         Message="injected"), direction=Direction.IN)
            else:
                msg = Message("ChatFromViewer", Block("AgentData", AgentID=spec.session.agent_id, SessionID=spec.session.id),
                              Block("ChatData", Message="injected", Type=1, Channel=0), direction=Direction.OUT)
            region_.circuit.send(msg)

        def op_http(st):
            url = caps[st["cap"]] + "/x" if st["cap"] else f"https://other.example.invalid/p{st['tag']}"
            http.request({"method": "POST", "url": url, "content": llsd.format_xml({"q": 1}),
                          "headers": {"X-Tag": str(st["tag"]), "Content-Type": "application/llsd+xml"}, "st": st})

        def op_eq(st):
            http.request({"method": "POST", "url": caps["EventQueueGet"], "content": llsd.format_xml({"ack": None, "done": False}),
                          "headers": {}, "st": st})

        def op_disconnect(st):
            import weakref as _wr
            pp = world.proxy_protocol(viewer)
            if pp is not None and state.get("proto_ref") is None:
                state["proto_ref"] = _wr.ref(pp)
            pp = None
            driver.op_disconnect(st)
            state["session_gone"] = True
            # the connection's objects (protocol, deserializer, circuits) are really let go of: frozen entries must be
            # self-contained
            state["collect_at"] = loop.time() + 0.25

        def maybe_collect():
            if state.get("collect_at") is not None and loop.time() >= state["collect_at"]:
                state["collect_at"] = None
                import gc
                gc.collect()
                if state.get("proto_ref") is not None and state["proto_ref"]() is None:
                    res.probe("connection_objects_collected")
                else:
                    res.probe("connection_objects_still_referenced")
                    import os
                    if os.environ.get("HSIM_DEBUG_REFS"):
                        o = state["proto_ref"]()
                        for r in gc.get_referrers(o):
                            print("REFERRER", type(r).__name__, (repr(r)[:160] if not isinstance(r, dict) else sorted(map(str, r.keys()))[:12]))

        ops = {"inject": op_inject, "select": op_select, "filter": op_filter, "pause": op_pause, "clear": op_clear, "export": op_export, "http": op_http,
               "eq": op_eq, "disconnect": op_disconnect, "ucc": driver.op_ucc, "vsend": driver.op_vsend,
               "ssend": driver.op_ssend}
        for i, st in enumerate(plan["steps"]):
            def _run(i=i, st=st):
                env.tr("step", i, st["op"])
                env.ab(st["op"], st.get("name", ""), len(model["ring"]) >= cfg["maxlen"])
                if stopped:
                    return
                maybe_collect()
                ops[st["op"]](st)
                if st["op"] in ("pause", "export"):
                    check_view(st["op"])
            loop.call_at(st["at"], _run)

        # the view must hold after traffic too: check at every arrival / flow completion
        def _on_traffic(a):
            if model["paused"]:
                res.probe("logged_while_paused_dropped")
            check_view("lludp traffic")
        world.arrival_hooks.append(_on_traffic)
        end = (plan["steps"][-1]["at"] if plan["steps"] else 0) + cfg["tail"]
        t_next = 0.1
        while t_next < end and not stopped:
            loop.run_sim(until=t_next, max_iterations=400_000)
            check_view("periodic")
            t_next = round(t_next + 0.05, 4)
        loop.run_sim(until=end, max_iterations=400_000)
        if state["session_gone"] and not stopped:
            # let the closed connection's objects really go away, then look at what the log still holds
            loop.run_sim(until=end + 0.3, max_iterations=400_000)
            state["collect_at"] = loop.time()
            maybe_collect()
        check_view("end")
        check_matches("end")
        if not stopped:
            seen_ = set()
            for e in list(model["ring"]) + list(model["visible"]):
                snap = snaps.get(id(e))
                if id(e) in seen_ or snap is None or snap.type != "LLUDP" or snap.undecodable:
                    continue
                seen_.add(id(e))
                try:
                    thawed = e.message.to_dict(extended=True)
                except Exception as ex:
                    violate("C18/thaw/raised", name=snap.name, exc=repr(ex)[:160], after="end")
                    break
                if not dicts_equal(thawed, snap.extended, ignore=("dropped",)):
                    violate("C18/thaw/message-changed", name=snap.name, want=repr(snap.extended)[:300],
                            got=repr(thawed)[:300], after="end", session_gone=state["session_gone"])
                    break
        if not stopped:
            bad = [r for r in env.log.records if str(r.msg).startswith("Failed to filter queued message")]
            if len(bad) > state.get("expected_filter_failures", 0):
                exc = bad[0].exc_info[1] if bad[0].exc_info else None
                violate("C18/filter/raised-while-logging", filter=model["filter_text"], exc=repr(exc)[:160])
        if not stopped:
            for ctx in loop.loop_exceptions:
                exc = ctx.get("exception")
                if exc is not None:
                    violate("C18/loop-exception", exc=repr(exc)[:200], msg=str(ctx.get("message"))[:160])
                    break
        res.sim_time = loop.time()
        res.steps = len(plan["steps"])
        env.tr("entries", serial[0])
        for e in list(model["ring"]):
            sn = snaps[id(e)]
            env.tr("entry", sn.serial, sn.type, sn.name)
            env.ab("entry", sn.type)
        res.digest = env.digest()
        res.abstract = env.abstract_digest()
        http.shutdown()
    return res

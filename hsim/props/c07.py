"""C07 - addons cannot duplicate, lose or wedge traffic: at-most-once, fault-isolated.

UDP proxy world with 1-3 scripted addon objects loaded through the real AddonManager plus
session/region level ``wait_for`` / ``subscribe_async`` subscribers.  Every hook of every addon gets,
per tagged message, a seeded behaviour: return falsy / truthy, raise, take (re-send the copy now,
later, never), drop, send the original itself, mutate, and deliberately illegal follow-ups
(re-send, re-drop, send-after-drop, send-after-take).  Lifecycle hooks raise on schedule.

Oracle: the scripted addons log what they did; a small ownership model derives from that log
whether the original was claimed and by whom, then the wire is checked (original <= 1, == 1 iff not
claimed; one ack per dropped reliable original; one datagram per legal copy send; illegal ops raise
RuntimeError and emit nothing), and the dispatch order / isolation / bookkeeping are checked
against the intended first-truthy short-circuit semantics.
"""
from __future__ import annotations

import asyncio
import logging
import random
import re
from typing import Dict, List, Optional, Tuple

from hsim.core.env import SimEnv
from hsim.core.runner import RunResult
from hsim.gen import messages as G
from hsim.gen import objects as O
from hsim.props.udp_common import Driver, WireModel, rand_fate
from hsim.stubs import lludp as L
from hsim.worlds.udp import Arrival, UdpWorld

PROPERTY = "C07"
CHUNK = {"quick": 16, "thorough": 40}
PROBES = ["waiter_cancelled_while_subscribed", "subscriber_block_left_by_exception", "subscriber_task_cancelled", "message_after_subscriber_gone",
          "plain_subscriber_raised", "raise_then_later_hook_takes", "subscriber_take_then_addon_drop", "subscriber_take_then_command_channel",
          "delayed_resend_of_copy", "two_rlv_commands_both_handled", "rlv_partially_handled",
          "truthy_with_pending_take", "packet_hook_swallowed", "illegal_followup_rejected", "lifecycle_hook_raised",
          "send_orig_by_addon", "mutated_forward", "take_false_subscriber_saw_original", "late_send_of_observed_original",
          "drop_after_take", "command_channel", "hook_raised", "subscriber_predicate_raised", "waiting_subscriber_asked",
          "two_waiting_subscribers_same_message", "subscribed_from_inside_a_handler", "coroutine_subscriber_ran", "object_hook_raised", "object_update_hooks",
          "object_kill_hooks", "object_hook_raised_then_others_ran"]
COMPONENTS = {
    "real": ["AddonManager.init / _call_all_addon_hooks / _call_module_hooks / _try_call_hook / handle_lludp_message "
             "(command channel, RLV) / lifecycle dispatch", "InterceptingLLUDPProxyProtocol.handle_proxied_packet",
             "Message.take / finalized / queued", "ProxiedCircuit.prepare_message / drop_message guards",
             "MessageHandler.wait_for / subscribe_async, Event.notify", "TaskScheduler", "SOCKS5 + session claim"],
    "stub": ["scripted addons (seeded behaviour tables)", "subscriber consumer tasks", "viewer / simulator endpoints",
             "network", "recording message logger"],
}
ASSUMPTIONS = [
    "explicit drop of the original after taking it is treated as legal (drop_message accepts it)",
    "piggy-backed ack conservation is C05's business and not judged here",
    "resends of re-sent reliable copies are pushed beyond the run (resend_every raised) so that every datagram "
    "seen is a first transmission",
]

HOOK_BEHAVIOURS = ["falsy", "falsy", "falsy", "truthy", "raise", "take_now", "take_later", "take_never", "drop",
                   "drop_falsy", "send_orig", "send_orig_truthy", "mutate", "send_twice", "drop_twice",
                   "send_after_drop", "send_after_take", "drop_after_take"]
PP_BEHAVIOURS = ["falsy"] * 8 + ["truthy", "raise"]
RLV_BEHAVIOURS = ["falsy", "falsy", "truthy", "raise"]
OBJ_BEHAVIOURS = ["falsy", "falsy", "truthy", "raise", "raise"]
LIFECYCLE = ["handle_session_init", "handle_region_registered", "handle_circuit_created", "handle_region_changed",
             "handle_session_closed", "handle_init"]
EXCS = ["ValueError", "KeyError", "RuntimeError", "AssertionError", "AttributeError", "Custom"]
TAG_RE = re.compile(rb"#(\d+)#")


def gen_plan(rng: random.Random, tier: str) -> dict:
    big = tier == "thorough"
    n_addons = rng.randint(1, 3)
    cfg = {
        "deferred": rng.random() < 0.85,
        "same_ip": False,
        "n_viewers": 1,
        "regions": [[0] if rng.random() < 0.7 else [0, 1]],
        "n_addons": n_addons,
        "lifecycle_raise": {h: [rng.random() < 0.25 for _ in range(n_addons)] for h in LIFECYCLE},
        "p_delay": rng.choice([0.0, 0.3]),
        "p_dup": rng.choice([0.0, 0.1]),
        "tail": 1.5,
        # permanent plain subscribers on the session handler, in subscription order: a failing one must not
        # keep the ones after it from being notified
        "plain_subs": rng.choice([[], ["observe"], ["raise", "observe"], ["observe", "raise", "observe"],
                                  ["pred_raise", "observe"], ["observe", "pred_raise", "raise", "observe"],
                                  ["rearm", "observe"], ["observe", "rearm"],
                                  ["async_observe", "observe"], ["observe", "async_observe", "raise", "observe"]]),
        # the same on every region's handler
        "plain_subs_region": rng.choice([[], [], ["observe"], ["raise", "observe"], ["pred_raise", "observe"],
                                         ["async_observe", "observe"]]),
    }
    quiet = rng.random() < 0.2   # mostly well-behaved addons
    steps = []
    t = 0.05
    for r in cfg["regions"][0]:
        steps.append({"at": t, "op": "ucc", "v": 0, "r": r})
        t = round(t + 0.01, 4)
    if rng.random() < 0.7:
        steps.append({"at": t, "op": "amc", "v": 0, "r": cfg["regions"][0][0]})
    # object traffic (object hooks are one more hook point): needs the region's handshake to have passed
    with_objects = rng.random() < 0.5
    if with_objects:
        for r in cfg["regions"][0]:
            if rng.random() < 0.85:
                t = round(t + 0.01, 4)
                steps.append({"at": t, "op": "hs", "v": 0, "r": r})
    obj_tags: List[int] = []
    n = rng.randint(3, 40 if big else 22)
    k = 0
    # a file-based addon next to the scripted ones: it gets edited (valid, broken, gone) while traffic flows; the
    # reloader looks at the file at most every 2 s
    file_addon = rng.random() < 0.15
    # "relay": the file addon also owns traffic through a long-lived task (takes every ChatFromSimulator and
    # re-sends it), which has to die with the version of the file it belongs to
    cfg["file_addon"] = (rng.choice(["observer", "relay", "relay"]) if file_addon else False)
    # ... and it may depend on a helper module registered for hot reloading, which gets edited too
    cfg["file_helper"] = bool(file_addon and rng.random() < 0.5)
    for _ in range(n):
        t = round(t + rng.choice([0.0, 0.001, 0.01, 0.05, 0.1]), 4)
        r = rng.choice(cfg["regions"][0])
        x = rng.random()
        if file_addon and rng.random() < 0.25:
            if rng.random() < 0.5:
                steps.append({"at": t, "op": "edit_addon", "content": rng.choice(["v2", "syntax", "syntax", "raise",
                                                                                   "gone", "v3"])})
            elif cfg["file_helper"] and rng.random() < 0.6:
                steps.append({"at": t, "op": "edit_addon", "content": "helper"})
            t = round(t + rng.choice([0.5, 2.05, 2.05, 4.1]), 4)       # let reload windows pass
        if x < 0.12:
            steps.append({"at": t, "op": "subscribe", "level": rng.choice(["session", "region"]), "r": r,
                          "names": rng.choice([["ChatFromViewer"], ["ChatFromSimulator"],
                                               ["ChatFromViewer", "ChatFromSimulator"]]),
                          "take": rng.random() < 0.7, "mode": rng.choice(["wait_for", "async"]),
                          "consume": rng.choice(["resend", "discard", "resend_later", "send_original_late"]),
                          "timeout": rng.choice([None, 0.05, 0.5]),
                          # how a subscribe_async block ends: normally, by an exception leaving the block, or by
                          # the task being cancelled from outside
                          "exit": rng.choice(["normal", "normal", "raise", "cancel"]),
                          "cancel_after": rng.choice([0.0, 0.02, 0.2])})
            continue
        if x < 0.15:
            steps.append({"at": t, "op": "amc", "v": 0, "r": r})
            continue
        if x < 0.17:
            steps.append({"at": t, "op": "register_region", "v": 0, "r": rng.randrange(3, 5)})
            continue
        if x < 0.18:
            steps.append({"at": t, "op": "disconnect", "v": 0})
            continue
        k += 1
        inbound = rng.random() < 0.5
        kind = "plain"
        y = rng.random()
        if not inbound and y < 0.15:
            kind = "cmd"
        elif inbound and y < 0.3:
            kind = "rlv"
        elif inbound and with_objects and y < 0.6:
            kind = "objkill" if obj_tags and y < 0.4 else "obj"
        # (an owner-say that starts with "@" but carries no command at all is still a chat message somebody sent)
        n_cmds = rng.choice([0, 1, 1, 2, 3]) if kind == "rlv" else 0

        def pick(pool):
            return rng.choice(pool) if not quiet or rng.random() < 0.15 else "falsy"
        st = {"at": t, "op": "chat", "v": 0, "r": r, "dir": "in" if inbound else "out", "tag": k, "kind": kind,
              "reliable": rng.random() < 0.5, "zerocoded": rng.random() < 0.3,
              "fate": rand_fate(rng, cfg["p_delay"], cfg["p_dup"]),
              "pp": [pick(PP_BEHAVIOURS) for _ in range(n_addons)],
              "lludp": [pick(HOOK_BEHAVIOURS) for _ in range(n_addons)],
              "rlv": [[pick(RLV_BEHAVIOURS) for _ in range(n_addons)] for _ in range(n_cmds)],
              "exc": rng.choice(EXCS), "later": rng.choice([0.0, 0.02, 0.2])}
        if kind == "obj":
            # now and then the datagram loses its last bytes in flight: the header still names the message, the hooks
            # still get it, but nobody can read its body
            if rng.random() < 0.2:
                st["damaged"] = rng.randint(1, 4)
            st["nobj"] = rng.randint(1, 3)
            st["objhook"] = [pick(OBJ_BEHAVIOURS) for _ in range(n_addons)]
            obj_tags.append(k)
        elif kind == "objkill":
            st["of"] = rng.choice(obj_tags)
        steps.append(st)
    return {"property": PROPERTY, "cfg": cfg, "steps": steps}


def simplify_step(step):
    if step.get("fate"):
        yield {**step, "fate": {}}
    if step.get("op") == "chat":
        for key in ("pp", "lludp") + (("objhook",) if step.get("objhook") else ()):
            for i, b in enumerate(step[key]):
                if b != "falsy":
                    lst = list(step[key])
                    lst[i] = "falsy"
                    yield {**step, key: lst}
        for ci, row in enumerate(step.get("rlv", [])):
            for i, b in enumerate(row):
                if b != "falsy":
                    rows = [list(x) for x in step["rlv"]]
                    rows[ci][i] = "falsy"
                    yield {**step, "rlv": rows}
        if len(step.get("rlv", [])) > 1:
            yield {**step, "rlv": step["rlv"][:-1]}
        if step.get("reliable"):
            yield {**step, "reliable": False}
        if step.get("zerocoded"):
            yield {**step, "zerocoded": False}
        if step.get("kind") in ("rlv", "cmd"):
            yield {**step, "kind": "plain", "rlv": []}
        if step.get("nobj", 1) > 1:
            yield {**step, "nobj": step["nobj"] - 1}
        if step.get("damaged"):
            yield {k_: v_ for k_, v_ in step.items() if k_ != "damaged"}
    if step.get("op") == "subscribe":
        if step.get("timeout"):
            yield {**step, "timeout": None}
        if step.get("mode") == "async":
            yield {**step, "mode": "wait_for"}
        if step.get("consume") != "discard":
            yield {**step, "consume": "discard"}
        if step.get("exit", "normal") != "normal":
            yield {**step, "exit": "normal"}


def simplify_plan(plan):
    cfg = plan["cfg"]
    lr = cfg["lifecycle_raise"]
    if cfg.get("plain_subs"):
        yield {**plan, "cfg": {**cfg, "plain_subs": []}}
    if cfg.get("plain_subs_region"):
        yield {**plan, "cfg": {**cfg, "plain_subs_region": []}}
    for key in ("plain_subs", "plain_subs_region"):
        for i in range(len(cfg.get(key) or [])):
            yield {**plan, "cfg": {**cfg, key: cfg[key][:i] + cfg[key][i + 1:]}}
    for h, flags in lr.items():
        if any(flags):
            yield {**plan, "cfg": {**cfg, "lifecycle_raise": {**lr, h: [False] * len(flags)}}}
    if not cfg.get("deferred"):
        yield {**plan, "cfg": {**cfg, "deferred": True}}
    if cfg["n_addons"] > 1:
        n = cfg["n_addons"] - 1
        if all(all(b == "falsy" for b in s["pp"][n:]) and all(b == "falsy" for b in s["lludp"][n:])
               and all(b == "falsy" for b in s.get("objhook", [])[n:])
               and all(all(b == "falsy" for b in row[n:]) for row in s.get("rlv", []))
               for s in plan["steps"] if s["op"] == "chat") and not any(f[n] for f in lr.values()):
            steps = []
            for s in plan["steps"]:
                if s["op"] == "chat":
                    s = {**s, "pp": s["pp"][:n], "lludp": s["lludp"][:n], "rlv": [row[:n] for row in s.get("rlv", [])]}
                    if s.get("objhook"):
                        s["objhook"] = s["objhook"][:n]
                steps.append(s)
            yield {**plan, "cfg": {**cfg, "n_addons": n, "lifecycle_raise": {h: f[:n] for h, f in lr.items()}},
                   "steps": steps}


class CustomAddonError(Exception):
    pass


def make_exc(name: str, where: str) -> Exception:
    cls = {"ValueError": ValueError, "KeyError": KeyError, "RuntimeError": RuntimeError,
           "AssertionError": AssertionError, "AttributeError": AttributeError, "Custom": CustomAddonError}[name]
    return cls(f"scripted failure in {where}")


class Recorder:
    """Shared log between scripted addons, subscribers and the oracle."""

    def __init__(self):
        self.current: Optional[List[dict]] = None   # entries for the arrival being handled
        self.all: List[dict] = []
        self.copy_sends: Dict[Tuple, int] = {}   # (far, direction, wire id) -> tag
        self.lifecycle: List[Tuple[str, int, str]] = []
        self.logger_calls: List[dict] = []

    def add(self, **e):
        self.all.append(e)
        if self.current is not None:
            self.current.append(e)
        return e


def tag_of_message(message) -> Optional[int]:
    try:
        if message.name == "ChatFromViewer":
            txt = message["ChatData"]["Message"]
        elif message.name == "ChatFromSimulator":
            txt = message["ChatData"]["FromName"]
        elif message.name == "ObjectUpdate":
            txt = message["ObjectData"]["Text"]
        else:
            return None
        m = re.search(r"#(\d+)#", str(txt))
        return int(m.group(1)) if m else None
    except Exception:
        return None


def run_plan(plan: dict) -> RunResult:
    from hippolyzer.lib.base.network.transport import Direction

    res = RunResult()
    cfg = plan["cfg"]
    beh: Dict[int, dict] = {s["tag"]: s for s in plan["steps"] if s["op"] == "chat"}
    rec = Recorder()
    stopped = []

    def violate(kind, /, **d):
        if not stopped:
            res.violate(kind, **d)
            stopped.append(1)

    with SimEnv(plan.get("seed", 0), log_level=logging.CRITICAL) as env:
        loop = env.loop

        def dirname(message):
            return "out" if message.direction == Direction.OUT else "in"

        def send_copy(region, copy, tag, how):
            if viewer.proxy_udp not in world.net.transports:
                # association already closed (viewer disconnected): nothing can be put on the wire
                return
            try:
                region.circuit.send(copy)
            except Exception as e:
                rec.add(kind="copy_send", tag=tag, how=how, ok=False, exc=type(e).__name__)
                # the first send of a copy obtained from take() is always legal
                violate("C07/ownership/legal-copy-send-rejected", tag=tag, how=how, exc=repr(e)[:160])
                raise
            d = dirname(copy)
            rec.copy_sends[(region.circuit_addr, d, copy.packet_id)] = tag
            rec.add(kind="copy_send", tag=tag, how=how, ok=True, wire=copy.packet_id, direction=d)

        def expect_runtime_error(fn, what, tag, idx):
            try:
                fn()
            except RuntimeError:
                rec.add(kind="illegal", what=what, tag=tag, addon=idx, rejected=True)
                res.probe("illegal_followup_rejected")
                return
            except Exception as e:
                if beh.get(tag, {}).get("damaged"):
                    # (the refusal is worded with the message's repr, which cannot be built for an unreadable body:
                    #  refused all the same)
                    rec.add(kind="illegal", what=what, tag=tag, addon=idx, rejected=True)
                    res.probe("illegal_followup_rejected")
                    return
                rec.add(kind="illegal", what=what, tag=tag, addon=idx, rejected=False, exc=type(e).__name__)
                violate("C07/ownership/illegal-op-wrong-exception", what=what, exc=repr(e)[:120])
                return
            rec.add(kind="illegal", what=what, tag=tag, addon=idx, rejected=False)
            violate("C07/ownership/illegal-op-accepted", what=what, tag=tag)

        class ScriptedAddon:
            def __init__(self, idx):
                self.idx = idx

            def __repr__(self):
                return f"<ScriptedAddon {self.idx}>"

            # ---- lifecycle ----
            def _life(self, hook, *a):
                rec.lifecycle.append((hook, self.idx, "call"))
                rec.add(kind="hook", hook=hook, addon=self.idx, tag=None)
                if cfg["lifecycle_raise"].get(hook, [False] * 3)[self.idx]:
                    res.probe("lifecycle_hook_raised")
                    raise make_exc("ValueError", hook)

            def handle_init(self, session_manager):
                self._life("handle_init")

            def handle_session_init(self, session):
                self._life("handle_session_init")

            def handle_session_closed(self, session):
                self._life("handle_session_closed")

            def handle_region_registered(self, session, region):
                self._life("handle_region_registered")

            def handle_region_changed(self, session, region):
                self._life("handle_region_changed")

            def handle_circuit_created(self, session, region):
                if self.idx == 0:
                    region.circuit.resend_every = 10_000.0
                self._life("handle_circuit_created")

            # ---- per packet ----
            def handle_proxied_packet(self, session_manager, packet, session, region):
                m = TAG_RE.search(packet.data)
                if not m:
                    return None
                tag = int(m.group(1))
                st = beh.get(tag)
                if st is None:
                    return None
                b = st["pp"][self.idx]
                rec.add(kind="hook", hook="handle_proxied_packet", addon=self.idx, tag=tag, beh=b)
                if b == "truthy":
                    return True
                if b == "raise":
                    res.probe("hook_raised")
                    raise make_exc(st["exc"], "handle_proxied_packet")
                return None

            def handle_rlv_command(self, session, region, source, behaviour, options, param):
                tag = cur_tag[0]
                st = beh.get(tag)
                if st is None:
                    return None
                ci = int(behaviour[1:]) if behaviour[1:].isdigit() else 0
                b = st["rlv"][ci][self.idx] if ci < len(st["rlv"]) else "falsy"
                rec.add(kind="hook", hook="handle_rlv_command", addon=self.idx, tag=tag, beh=b, cmd=ci)
                if b == "truthy":
                    return True
                if b == "raise":
                    res.probe("hook_raised")
                    raise make_exc(st["exc"], "handle_rlv_command")
                return None

            def _obj_hook(self, hook, obj):
                txt = getattr(obj, "Text", None)
                m = TAG_RE.search(txt if isinstance(txt, bytes) else str(txt).encode())
                st = beh.get(int(m.group(1))) if m else None
                if st is None or st.get("kind") != "obj":
                    return None
                b = st["objhook"][self.idx]
                rec.add(kind="objhook", hook=hook, addon=self.idx, tag=st["tag"], local=obj.LocalID, beh=b)
                if b == "truthy":
                    return True
                if b == "raise":
                    res.probe("object_hook_raised")
                    raise make_exc(st["exc"], hook)
                return None

            def handle_object_updated(self, session, region, obj, updated_props, msg=None):
                return self._obj_hook("handle_object_updated", obj)

            def handle_object_killed(self, session, region, obj):
                return self._obj_hook("handle_object_killed", obj)

            def handle_lludp_message(self, session, region, message):
                tag = tag_or_current(message)
                st = beh.get(tag)
                if st is None:
                    return None
                b = st["lludp"][self.idx]
                e = rec.add(kind="hook", hook="handle_lludp_message", addon=self.idx, tag=tag, beh=b,
                            finalized_before=bool(message.finalized), queued_before=bool(message.queued))
                circuit = region.circuit
                if b == "falsy":
                    return None
                if b == "truthy":
                    return True
                if b == "raise":
                    res.probe("hook_raised")
                    raise make_exc(st["exc"], "handle_lludp_message")
                if b in ("take_now", "take_later", "take_never"):
                    copy = message.take()
                    rec.add(kind="take", tag=tag, by=f"addon{self.idx}", effective=not e["finalized_before"])
                    if b == "take_now":
                        send_copy(region, copy, tag, "now")
                    elif b == "take_later":
                        def _later():
                            if region.circuit is circuit and circuit.is_alive:
                                res.probe("delayed_resend_of_copy")
                                try:
                                    send_copy(region, copy, tag, "later")
                                except Exception:
                                    pass
                        loop.call_later(st["later"], _later)
                    return None
                if b in ("drop", "drop_falsy"):
                    try:
                        circuit.drop_message(message)
                        rec.add(kind="drop", tag=tag, by=f"addon{self.idx}", ok=True)
                    except Exception:
                        rec.add(kind="drop", tag=tag, by=f"addon{self.idx}", ok=False)
                        raise
                    return True if b == "drop" else None
                if b in ("send_orig", "send_orig_truthy"):
                    try:
                        circuit.send(message)
                        rec.add(kind="send_orig", tag=tag, by=f"addon{self.idx}", ok=True)
                        res.probe("send_orig_by_addon")
                    except Exception:
                        rec.add(kind="send_orig", tag=tag, by=f"addon{self.idx}", ok=False)
                        raise
                    return True if b == "send_orig_truthy" else None
                if b == "mutate":
                    if message.name == "ChatFromViewer" and not message.finalized:
                        message["ChatData"]["Message"] = str(message["ChatData"]["Message"]) + "!"
                        rec.add(kind="mutate", tag=tag)
                    return None
                # ---- deliberately illegal follow-ups (each must raise RuntimeError) ----
                if b == "send_twice":
                    if not message.finalized and not message.queued:
                        circuit.send(message)
                        rec.add(kind="send_orig", tag=tag, by=f"addon{self.idx}", ok=True)
                        expect_runtime_error(lambda: circuit.send(message), "send_twice", tag, self.idx)
                    return None
                if b == "drop_twice":
                    if not message.finalized:
                        circuit.drop_message(message)
                        rec.add(kind="drop", tag=tag, by=f"addon{self.idx}", ok=True)
                        expect_runtime_error(lambda: circuit.drop_message(message), "drop_twice", tag, self.idx)
                    return True
                if b == "send_after_drop":
                    if not message.finalized:
                        circuit.drop_message(message)
                        rec.add(kind="drop", tag=tag, by=f"addon{self.idx}", ok=True)
                        expect_runtime_error(lambda: circuit.send(message), "send_after_drop", tag, self.idx)
                    return True
                if b == "send_after_take":
                    if not message.finalized:
                        message.take()
                        rec.add(kind="take", tag=tag, by=f"addon{self.idx}", effective=True)
                        expect_runtime_error(lambda: circuit.send(message), "send_after_take", tag, self.idx)
                    return None
                if b == "drop_after_take":
                    if not message.finalized:
                        message.take()
                        rec.add(kind="take", tag=tag, by=f"addon{self.idx}", effective=True)
                        circuit.drop_message(message)
                        rec.add(kind="drop", tag=tag, by=f"addon{self.idx}", ok=True)
                        res.probe("drop_after_take")
                    return None
                return None

        class RecordingLogger:
            paused = False

            def log_lludp_message(self, session, region, message):
                rec.logger_calls.append({"tag": tag_or_current(message), "synthetic": bool(message.synthetic),
                                         "name": message.name, "t": loop.time()})
                rec.add(kind="logged", tag=tag_or_current(message), synthetic=bool(message.synthetic))

            def log_http_response(self, flow):
                pass

            def log_eq_event(self, session, region, event):
                pass

        cur_tag = [None]

        def tag_or_current(message):
            """The tag as the hooks can read it; for a datagram damaged in flight (body unreadable) the harness tells
            them which one it is."""
            t_ = tag_of_message(message)
            if t_ is None and not message.synthetic and cur_tag[0] in beh and beh[cur_tag[0]].get("damaged"):
                return cur_tag[0]
            return t_
        addons = [ScriptedAddon(i) for i in range(cfg["n_addons"])]
        addon_paths, mtime_of = [], None
        if cfg.get("file_addon"):
            import os
            import sys
            import tempfile
            from hsim.props import c07_file_hook
            scratch = tempfile.mkdtemp(prefix="hsim-c07-")
            fpath = os.path.join(scratch, "hsimfileaddon.py")
            vtimes = {}

            hpath = os.path.join(scratch, "hsimfilehelper.py")
            helper_rev = [0]

            def write_helper():
                helper_rev[0] += 1
                with open(hpath, "w") as f:
                    f.write(f"HELPER = 'h{helper_rev[0]}'\n" + "# " + "x" * helper_rev[0] + "\n")
                vtimes[hpath] = vtimes.get("_n", 1000.0) + 1.0
                vtimes["_n"] = vtimes[hpath]

            def write_addon(content):
                if content == "helper":
                    return write_helper() if cfg.get("file_helper") else None
                bodies = {
                    "syntax": "def broken(:\n    pass\n",
                    "raise": "raise RuntimeError('scripted: addon file fails while loading')\n",
                }
                if content == "gone":
                    if os.path.exists(fpath):
                        os.unlink(fpath)
                    vtimes.pop(fpath, None)
                    return
                src = bodies.get(content) or (
                    "from hsim.props import c07_file_hook as H\n"
                    "from hippolyzer.lib.proxy.addon_utils import BaseAddon\n"
                    + ("" if not cfg.get("file_helper") else
                       "import hsimfilehelper\n"
                       "from hippolyzer.lib.proxy.addons import AddonManager\n"
                       "AddonManager.hot_reload(hsimfilehelper)\n")
                    + f"VERSION = {content!r}\n"
                    "class FileAddon(BaseAddon):\n"
                    "    def handle_init(self, session_manager):\n        H.record('init', VERSION)\n"
                    "    def handle_unload(self, session_manager):\n        H.record('unload', VERSION)\n"
                    "    def handle_lludp_message(self, session, region, message):\n"
                    "        H.record('lludp', VERSION, message.name)\n"
                    + ("" if cfg["file_addon"] != "relay" else
                       "    def handle_session_init(self, session):\n"
                       "        self._schedule_task(self._relay(session), session=session)\n"
                       "    async def _relay(self, session):\n"
                       "        with session.message_handler.subscribe_async(('ChatFromSimulator',),\n"
                       "                predicate=lambda m: H.pred(VERSION, m), take=True) as get_msg:\n"
                       "            while True:\n"
                       "                H.relay(VERSION, session, await get_msg())\n")
                    + "addons = [FileAddon()]\n")
                with open(fpath, "w") as f:
                    f.write(src)
                vtimes[fpath] = vtimes.get("_n", 1000.0) + 1.0
                vtimes["_n"] = vtimes[fpath]

            live_version = [None]

            def file_sink(what, version, *a):
                rec.add(kind="file_addon", what=what, version=version)
                res.probe("file_addon_" + what)
                if what == "init":
                    live_version[0] = version

            def file_pred(version, msg):
                tag_ = tag_of_message(msg)
                if tag_ is None:
                    return False
                if live_version[0] is not None and version != live_version[0]:
                    # a newer version of the file has been loaded and initialised: nothing of the old one may
                    # still be listening
                    violate("C07/isolation/unloaded-addon-still-acting", tag=tag_, stale=version, live=live_version[0])
                    return False
                rec.add(kind="take", tag=tag_, by="subscriber", effective=not msg.finalized, file_version=version)
                res.probe("file_addon_relay_took")
                return True

            def file_relay(version, session_, msg):
                region_ = session_.region_by_circuit_addr(msg.sender) if msg.sender else None
                region_ = region_ or session_.main_region
                if region_ is None or region_.circuit is None or not region_.circuit.is_alive:
                    return
                try:
                    send_copy(region_, msg, tag_of_message(msg), "file_relay")
                except Exception:
                    pass
            c07_file_hook.SINK = file_sink
            c07_file_hook.PRED = file_pred
            c07_file_hook.RELAY = file_relay
            from hippolyzer.lib.proxy.addons import AddonManager as _AM
            _AM.HOTRELOAD_IMPORTERS.clear()
            sys.modules.pop("hsimfilehelper", None)
            if cfg.get("file_helper"):
                write_helper()
            write_addon("v1")
            addon_paths = [fpath]
            mtime_of = lambda path_: vtimes.get(str(path_))     # noqa: E731
            env._patch(sys, "dont_write_bytecode", True)

            def cleanup_file_addon():
                import shutil
                c07_file_hook.SINK = c07_file_hook.PRED = c07_file_hook.RELAY = None
                shutil.rmtree(scratch, ignore_errors=True)
                for name_ in [m_ for m_ in sys.modules if m_.startswith("hippolyzer.user_addon_hsimfileaddon")]:
                    sys.modules.pop(name_, None)
                sys.modules.pop("hsimfilehelper", None)
                _AM.HOTRELOAD_IMPORTERS.clear()
                if scratch in sys.path:
                    sys.path.remove(scratch)
                rp = os.path.realpath(scratch)
                if rp in sys.path:
                    sys.path.remove(rp)
            env.cleanups.append(cleanup_file_addon)
        world = UdpWorld(env, cfg, addons=addons, logger=RecordingLogger(), addon_paths=addon_paths, mtime_of=mtime_of)
        model = WireModel(world, eager=not cfg.get("deferred", True))
        spec = world.login(0, cfg["regions"][0])
        model.add_session(spec)
        viewer = world.add_viewer(0)
        viewer.session_idx = 0
        viewer.connect()
        loop.run_sim(until=0.02)
        if viewer.state != "ready":
            res.violate("HARNESS/socks-handshake")
            return res
        model.assoc(viewer)
        driver = Driver(world, model, res)
        session = spec.session
        observed: Dict[int, Dict[int, int]] = {}     # observer index -> tag -> calls

        def make_plain(i, kind_, level):
            def _h(msg):
                tag = tag_of_message(msg)
                if tag is None:
                    return
                rec.add(kind="plain_sub", idx=i, beh=kind_, tag=tag, level=level)
                if kind_ == "raise":
                    res.probe("plain_subscriber_raised")
                    raise make_exc("ValueError", "plain message_handler subscriber")
                if kind_ == "rearm" and rearmed[0] < 3 and msg.name in ("ChatFromViewer", "ChatFromSimulator"):
                    # arms a one-off wait for the *follow-up* message from inside the handler of this one
                    rearmed[0] += 1
                    res.probe("subscribed_from_inside_a_handler")
                    op_subscribe({"level": "session", "r": 0, "names": [msg.name], "take": True, "mode": "wait_for",
                                  "consume": "resend", "timeout": 0.5, "exit": "normal", "cancel_after": 0.0})
            return _h
        rearmed = [0]

        keep_alive = []

        def make_async(i, level):
            async def _h(msg):
                tag = tag_of_message(msg)
                if tag is not None:
                    res.probe("coroutine_subscriber_ran")
                    async_seen[(level, i, tag)] = async_seen.get((level, i, tag), 0) + 1
            return _h
        async_seen: Dict[tuple, int] = {}
        dispatched: Dict[tuple, int] = {}      # (level, tag) -> times the handler of that level dispatched it

        def make_pred(i, level):
            def _p(msg):
                # a predicate written for one message shape, asked about another
                if tag_of_message(msg) is None:
                    return False
                res.probe("subscriber_predicate_raised")
                rec.add(kind="plain_pred_raised", idx=i, level=level)
                raise make_exc("KeyError", "subscriber predicate")
            return _p
        def make_census(level):
            def _h(msg):
                tag = tag_of_message(msg)
                if tag is not None:
                    dispatched[(level, tag)] = dispatched.get((level, tag), 0) + 1
            return _h
        for level, handlers in (("session", [session.message_handler]),
                                ("region", [r_.message_handler for r_ in session.regions])):
            for handler_ in handlers:
                for nm in ("ChatFromViewer", "ChatFromSimulator", "ObjectUpdate"):
                    handler_.subscribe(nm, make_census(level))
        for level, handlers, kinds in [("session", [session.message_handler], cfg.get("plain_subs", [])),
                                       ("region", [r_.message_handler for r_ in session.regions],
                                        cfg.get("plain_subs_region", []))]:
            for i, kind_ in enumerate(kinds):
                for handler_ in handlers:
                    if kind_ == "pred_raise":
                        # predicates are addon code too (wait_for / subscribe_async take one)
                        keep_alive.append(handler_.wait_for(("ChatFromViewer", "ChatFromSimulator", "ObjectUpdate"),
                                                            predicate=make_pred(i, level), take=False))
                        continue
                    for nm in ("ChatFromViewer", "ChatFromSimulator", "ObjectUpdate"):
                        handler_.subscribe(nm, make_async(i, level) if kind_ == "async_observe"
                                           else make_plain(i, kind_, level))

        # ---------------- lifecycle isolation: handle_init / handle_session_init --------------------
        def check_lifecycle(hook, since):
            calls = [(h, i) for (h, i, _) in rec.lifecycle[since:] if h == hook]
            want = [(hook, i) for i in range(cfg["n_addons"])]
            return calls == want

        if not check_lifecycle("handle_session_init", 0):
            violate("C07/isolation/lifecycle-hooks-skipped", hook="handle_session_init",
                    calls=[c for c in rec.lifecycle if c[0] == "handle_session_init"])

        # ---------------- ops ----------------------------------------------------------------------
        def op_chat(st):
            tag = st["tag"]
            far = driver.far(st)
            text = f"#{tag}# hi"
            if st["dir"] == "out":
                if viewer.proxy_udp is None:
                    return
                channel = 524 if st["kind"] == "cmd" else 3
                body = G.chat_from_viewer_body(spec.agent_id, spec.session_id, text if st["kind"] != "cmd" else f"#{tag}#",
                                               channel)
                ep, flow = viewer, far
            else:
                reg = world.regions.get(far)
                if reg is None or viewer.proxy_udp not in reg.peers:
                    return
                if st["kind"] == "rlv":
                    chat = "@" + ",".join(f"c{ci}=n" for ci in range(len(st["rlv"])))
                    if not st["rlv"]:
                        res.probe("rlv_marker_without_commands")
                    body = G.chat_from_simulator_body(chat, from_name=f"#{tag}#", chat_type=8)
                elif st["kind"] == "obj":
                    body = O.object_update_body(reg.handle, [(obj_local(tag, i), obj_local(tag, i), 0)
                                                             for i in range(st["nobj"])], 0, text=b"#%d#" % tag)
                elif st["kind"] == "objkill":
                    body = O.kill_body([obj_local(st["of"], i) for i in range(beh[st["of"]]["nobj"])])
                    kill_of[len(kill_sent)] = st["of"]
                    kill_sent.append(st["of"])
                else:
                    body = G.chat_from_simulator_body("hello", from_name=f"#{tag}#", chat_type=1)
                ep, flow = reg, viewer.proxy_udp
            flags = (L.RELIABLE if st.get("reliable") else 0) | (L.ZEROCODED if st.get("zerocoded") else 0)
            pid = ep.alloc_pid(flow)
            dg = L.build_datagram(flags, pid, 0, body)
            if st.get("damaged") and st["kind"] == "obj" and not st.get("zerocoded"):
                dg = dg[:-st["damaged"]]
                res.fault("datagram_damaged_in_flight")
            sent_pid[tag] = pid
            from hsim.core.net import Fate
            if st["dir"] == "out":
                viewer.send_payload(far, dg, Fate.from_json(st.get("fate")))
            else:
                ep.send_payload(viewer.proxy_udp, dg, Fate.from_json(st.get("fate")))

        sent_pid: Dict[int, int] = {}
        kill_of: Dict[int, int] = {}
        kill_sent: List[int] = []

        def obj_local(tag, i):
            return 100 + tag * 4 + i

        def op_hs(st):
            far = driver.far(st)
            reg = world.regions.get(far)
            if reg is None or viewer.proxy_udp not in reg.peers:
                return
            reg.send_payload(viewer.proxy_udp, L.build_datagram(L.RELIABLE, reg.alloc_pid(viewer.proxy_udp), 0,
                                                                O.region_handshake_body("sim")))

        def op_amc(st):
            far = driver.far(st)
            reg = world.regions.get(far)
            if reg is None or viewer.proxy_udp not in reg.peers:
                return
            tmpl = G.templates().get_template_by_name("AgentMovementComplete")
            import struct
            body = (tmpl.freq_num_bytes + spec.agent_id + spec.session_id + struct.pack("<3f", 1, 2, 3)
                    + struct.pack("<3f", 1, 0, 0) + struct.pack("<Q", reg.handle) + struct.pack("<I", 0)
                    + G.var_str("sim", 2))
            reg.send_payload(viewer.proxy_udp, L.build_datagram(L.RELIABLE, reg.alloc_pid(viewer.proxy_udp), 0, body))

        subs = []

        def op_subscribe(st):
            if session not in world.sm.sessions:
                return
            if st["level"] == "session":
                handler = session.message_handler
                region = None
            else:
                region = world.region_obj(0, driver.far(st))
                if region is None:
                    return
                handler = region.message_handler
            take = st["take"]
            sub = {"take": take, "st": st, "got": [], "idx": len(subs), "t_sub": loop.time(), "pred_calls": 0,
                   "level": st["level"], "region_obj": region, "born_in": world._current}
            subs.append(sub)

            def predicate(msg):
                # runs synchronously right before the repo's handler takes / observes the message
                tag = tag_of_message(msg)
                sub["pred_calls"] += 1
                if sub["born_in"] is not None and sub["born_in"] is world._current:
                    # subscribed from inside a handler while this very message was being dispatched
                    violate("C07/isolation/notified-of-message-older-than-subscription", tag=tag, mode=st["mode"],
                            take=take)
                if sub.get("gone"):
                    # the subscriber is gone (block ended normally / by exception / by cancellation, future resolved /
                    # timed out / cancelled): nothing may still be *taking* messages on its behalf
                    # (not recorded as a take: the ownership model then expects the message to be forwarded, and the
                    #  wire check reports it as lost if a leftover subscription took it anyway)
                    rec.add(kind="stale_subscription_notified", tag=tag, how=sub["gone"], mode=st["mode"], take=take,
                            sub=sub["idx"])
                    return True
                if take:
                    rec.add(kind="take", tag=tag, by="subscriber", effective=not msg.finalized, sub=sub["idx"])
                else:
                    rec.add(kind="observe", tag=tag, by="subscriber", sub=sub["idx"])
                    res.probe("take_false_subscriber_saw_original")
                if region is not None:
                    sub["region"] = region
                else:
                    sub["region"] = (session.region_by_circuit_addr(msg.sender) if msg.direction == Direction.IN
                                     else None) or session.main_region or next(
                        (r for r in session.regions if r.circuit), None)
                return True

            def consume(msg):
                tag = tag_of_message(msg)
                sub["got"].append(tag)
                reg_obj = sub.get("region")
                mode = st["consume"]
                if mode == "discard" or reg_obj is None or reg_obj.circuit is None:
                    return
                if mode in ("resend", "resend_later") and take:
                    def _send():
                        if reg_obj.circuit is not None and reg_obj.circuit.is_alive:
                            try:
                                send_copy(reg_obj, msg, tag, "subscriber")
                            except Exception:
                                pass
                    if mode == "resend":
                        _send()
                    else:
                        loop.call_later(0.03, _send)
                elif mode == "send_original_late" and not take:
                    # an observer holding the *original*: by the time it runs the message is finalized
                    def _late():
                        if reg_obj.circuit is None:
                            return
                        res.probe("late_send_of_observed_original")
                        if msg.finalized:
                            expect_runtime_error(lambda: reg_obj.circuit.send(msg), "late_send_of_observed_original",
                                                 tag, -1)
                    loop.call_later(0.01, _late)

            if st["mode"] == "wait_for":
                fut = handler.wait_for(tuple(st["names"]), predicate=predicate, timeout=st.get("timeout"), take=take)

                def _done(f):
                    # resolved, timed out or cancelled: whoever waited is no longer interested
                    sub["gone"] = "resolved" if not f.cancelled() and f.exception() is None else (
                        "cancelled" if f.cancelled() else "timed out")
                    if f.cancelled() or f.exception() is not None:
                        return
                    consume(f.result())
                fut.add_done_callback(_done)
                if st.get("exit") == "cancel":
                    # what happens to the future when the task awaiting it is cancelled (session closed,
                    # region changed, addon unloaded)
                    def _cancel():
                        if not fut.done():
                            res.probe("waiter_cancelled_while_subscribed")
                            fut.cancel()
                            sub["gone"] = "cancelled"
                    loop.call_later(st.get("cancel_after", 0.0), _cancel)
            else:
                how = st.get("exit", "normal")

                async def _runner():
                    try:
                        with handler.subscribe_async(tuple(st["names"]), predicate=predicate, take=take) as get_msg:
                            for _ in range(2):
                                try:
                                    msg = await asyncio.wait_for(get_msg(), timeout=st.get("timeout") or 0.3)
                                except asyncio.TimeoutError:
                                    if how == "raise":
                                        res.probe("subscriber_block_left_by_exception")
                                        raise            # the exception leaves the `with` block
                                    return
                                consume(msg)
                    except asyncio.TimeoutError:
                        pass
                    except asyncio.CancelledError:
                        res.probe("subscriber_task_cancelled")
                    finally:
                        sub["gone"] = how
                task = loop.create_task(_runner())
                if how == "cancel":
                    loop.call_later(st.get("cancel_after", 0.0), task.cancel)

        driver.ops["chat"] = op_chat
        def op_edit_addon(st):
            if cfg.get("file_addon"):
                res.fault("addon_file_edited:" + st["content"])
                write_addon(st["content"])
        driver.ops["edit_addon"] = op_edit_addon
        driver.ops["amc"] = op_amc
        driver.ops["hs"] = op_hs
        driver.ops["subscribe"] = op_subscribe

        # ---------------- per-arrival oracle ---------------------------------------------------------
        orig_emissions: Dict[int, int] = {}     # tag -> count of "original" emissions (whole run)
        took_by_sub_pending: Dict[int, int] = {}

        def on_deliver(kind, t, src, dst, data):
            if kind == "deliver" and dst in world.assoc_owner:
                rec.current = []
                m = TAG_RE.search(data)
                cur_tag[0] = int(m.group(1)) if m else None
                life_mark[0] = len(rec.lifecycle)
        life_mark = [0]
        world.net.taps.insert(0, on_deliver)

        def parse_em(e):
            if e.dst == viewer.addr:
                far, payload = L.socks_unwrap(e.raw)
                return "in", far, L.parse_datagram(payload)
            return "out", e.dst, L.parse_datagram(e.raw)

        def on_arrival(a: Arrival):
            entries = rec.current or []
            rec.current = None
            if stopped:
                return
            exp = model.classify(a)
            a.meta["expect"] = exp
            if exp.kind != "forward":
                return
            pin = exp.parsed
            m = TAG_RE.search(pin.body_plain)
            tag = int(m.group(1)) if m else None
            # ---- lifecycle isolation for UseCircuitCode / AgentMovementComplete
            if exp.name == "UseCircuitCode":
                calls = [i for (h, i, _) in rec.lifecycle[life_mark[0]:] if h == "handle_circuit_created"]
                if calls and calls != list(range(cfg["n_addons"])):
                    return violate("C07/isolation/lifecycle-hooks-skipped", hook="handle_circuit_created", calls=calls)
                if a.escaped is not None:
                    return violate("C07/isolation/exception-escaped", name=exp.name, exc=repr(a.escaped)[:200])
                if len([e for e in a.emissions]) != 1:
                    return violate("C07/wire/original-count", name=exp.name, emitted=len(a.emissions), want=1)
                return
            if exp.name == "AgentMovementComplete":
                calls = [i for (h, i, _) in rec.lifecycle[life_mark[0]:] if h == "handle_region_changed"]
                if calls != list(range(cfg["n_addons"])):
                    return violate("C07/isolation/lifecycle-hooks-skipped", hook="handle_region_changed", calls=calls)
                if a.escaped is not None:
                    return violate("C07/isolation/exception-escaped", name=exp.name, exc=repr(a.escaped)[:200])
                if session.main_region is None or session.main_region.circuit_addr != exp.far:
                    return violate("C07/isolation/bookkeeping-skipped", what="main_region")
                if len(a.emissions) != 1:
                    return violate("C07/wire/original-count", name=exp.name, emitted=len(a.emissions), want=1)
                return
            if exp.name == "RegionHandshake":
                if a.escaped is not None:
                    return violate("C07/isolation/exception-escaped", name=exp.name, exc=repr(a.escaped)[:200])
                if len(a.emissions) != 1:
                    return violate("C07/wire/original-count", name=exp.name, emitted=len(a.emissions), want=1)
                obj_tracked.add(exp.far)
                return
            if exp.name == "KillObject" and tag is None:
                if a.escaped is not None:
                    return violate("C07/isolation/exception-escaped", name=exp.name, exc=repr(a.escaped)[:200])
                if len(a.emissions) != 1:
                    return violate("C07/wire/original-count", name=exp.name, emitted=len(a.emissions), want=1)
                import struct
                n_ids = pin.body_plain[1]
                ids = [struct.unpack_from("<I", pin.body_plain, 2 + 4 * i)[0] for i in range(n_ids)]
                return check_object_hooks(exp, entries, beh.get((ids[0] - 100) // 4) if ids else None, ids,
                                          "handle_object_killed", False)
            st = beh.get(tag)
            if st is None:
                return
            if st.get("damaged") and st["kind"] == "obj" and not st.get("zerocoded") and not cfg.get("deferred", True):
                # with eager parsing a datagram whose body cannot be decoded is discarded before anybody sees it
                return
            if any(sb.get("gone") for sb in subs):
                res.probe("message_after_subscriber_gone")
            n_add = cfg["n_addons"]
            # ---- expected hook sequence (first-truthy short circuit, exceptions swallowed) -----------
            want_seq = []
            swallowed = False
            for i in range(n_add):
                want_seq.append(("handle_proxied_packet", i, None))
                if st["pp"][i] == "truthy":
                    swallowed = True
                    break
            claimed = False
            cmd_channel = False
            rlv_handled_cmds = 0
            if swallowed:
                claimed = True
                res.probe("packet_hook_swallowed")
            else:
                if st["kind"] == "cmd" and exp.direction == "out":
                    cmd_channel = True
                    claimed = True
                    res.probe("command_channel")
                else:
                    skip_lludp = False
                    if st["kind"] == "rlv" and exp.direction == "in":
                        all_handled = True
                        for ci, row in enumerate(st["rlv"]):
                            handled = False
                            for i in range(n_add):
                                want_seq.append(("handle_rlv_command", i, ci))
                                if row[i] == "truthy":
                                    handled = True
                                    break
                            if handled:
                                rlv_handled_cmds += 1
                                claimed = True
                            else:
                                all_handled = False
                        if rlv_handled_cmds >= 2:
                            res.probe("two_rlv_commands_both_handled")
                            # the second drop attempt is rejected -> treated as not handled by the manager
                            all_handled = False
                        if rlv_handled_cmds and rlv_handled_cmds < len(st["rlv"]):
                            res.probe("rlv_partially_handled")
                        skip_lludp = all_handled and st["rlv"]
                    if not skip_lludp:
                        for i in range(n_add):
                            want_seq.append(("handle_lludp_message", i, None))
                            b = st["lludp"][i]
                            # behaviours returning truthy stop the chain; a behaviour that raised returns nothing
                            truthy = b in ("truthy", "drop", "send_orig_truthy", "drop_twice", "send_after_drop")
                            if truthy and not hook_raises(b, entries, i):
                                break
            got_seq = [(e["hook"], e["addon"], e.get("cmd")) for e in entries if e["kind"] == "hook"
                       and e["hook"] in ("handle_proxied_packet", "handle_rlv_command", "handle_lludp_message")]
            if got_seq != want_seq:
                return violate("C07/isolation/hook-sequence", tag=tag, want=want_seq, got=got_seq,
                               escaped=repr(a.escaped)[:120] if a.escaped else None)
            damaged = bool(st.get("damaged")) and st["kind"] == "obj" and not st.get("zerocoded")
            if damaged:
                res.probe("hooks_on_a_message_nobody_can_read")
            # ---- every permanent subscriber is notified exactly once, whatever the ones before it did --------
            # (subscribers of the harness recognise their messages by reading them: a damaged one is not judged here)
            if not swallowed and not damaged:
                for level, kinds in (("session", cfg.get("plain_subs", [])), ("region", cfg.get("plain_subs_region", []))):
                    calls = [e["idx"] for e in entries if e["kind"] == "plain_sub" and e.get("level", "session") == level]
                    # a subscriber whose predicate failed is not itself notified; everybody else is
                    want_calls = [i for i, k_ in enumerate(kinds) if k_ not in ("pred_raise", "async_observe")]

                    if calls != want_calls:
                        return violate("C07/isolation/subscriber-skipped", tag=tag, level=level, called=calls,
                                       want=want_calls, subs=kinds)
            if st["kind"] == "obj" and exp.direction == "in" and not damaged:
                check_object_hooks(exp, entries, st, [obj_local(tag, i) for i in range(st["nobj"])],
                                   "handle_object_updated", swallowed)
                if stopped:
                    return
            # ---- every subscriber that is (still) waiting for this kind of message is asked about it --------------
            if not swallowed:
                now_ = loop.time()
                asked = {}
                for e in entries:
                    if e.get("sub") is not None:
                        asked[e["sub"]] = asked.get(e["sub"], 0) + 1
                msg_region = world.region_obj(0, exp.far)
                for sb in subs:
                    st_s = sb["st"]
                    if sb["born_in"] is a or exp.name not in st_s["names"] or sb.get("gone"):
                        continue
                    if sb["level"] == "region" and sb["region_obj"] is not msg_region:
                        continue
                    if sb["pred_calls"] - asked.get(sb["idx"], 0) > 0:
                        continue      # already had (one of) its message(s): may or may not still be listening
                    horizon = st_s.get("timeout") or (0.3 if st_s["mode"] == "async" else None)
                    if horizon is not None and now_ >= sb["t_sub"] + horizon - 1e-6:
                        continue
                    if st_s.get("exit") == "cancel" and now_ >= sb["t_sub"] + st_s.get("cancel_after", 0.0) - 1e-6:
                        continue
                    if st_s["mode"] == "async" and not sb["t_sub"] < now_ - 1e-9:
                        continue      # its task may not have entered the block yet
                    if asked.get(sb["idx"], 0) != 1:
                        return violate("C07/isolation/subscriber-skipped", tag=tag, level=sb["level"], mode=st_s["mode"],
                                       asked=asked.get(sb["idx"], 0), want=1, subscribed_at=sb["t_sub"],
                                       others_asked=sorted(asked))
                    res.probe("waiting_subscriber_asked")
                    if len(asked) > 1:
                        res.probe("two_waiting_subscribers_same_message")
            # ---- exceptions must not escape a valid datagram's handling ------------------------------
            if a.escaped is not None:
                takers = [e for e in entries if e["kind"] == "take" and e.get("effective")]
                if takers and cmd_channel:
                    res.probe("subscriber_take_then_command_channel")
                return violate("C07/isolation/exception-escaped", tag=tag, exc=repr(a.escaped)[:200],
                               cmd_channel=cmd_channel, takes=[e["by"] for e in takers],
                               drops=[e["by"] for e in entries if e["kind"] == "drop"])
            # ---- ownership from the log -------------------------------------------------------------
            takes = [e for e in entries if e["kind"] == "take" and e.get("effective")]
            drops = [e for e in entries if e["kind"] == "drop" and e.get("ok")]
            sends = [e for e in entries if e["kind"] == "send_orig" and e.get("ok")]
            truthy_ret = any(e["kind"] == "hook" and e["hook"] == "handle_lludp_message"
                             and e["beh"] in ("truthy",) for e in entries)
            if takes or drops or truthy_ret:
                claimed = True
            if any(e["by"] == "subscriber" for e in takes) and any(e["by"].startswith("addon") for e in drops):
                res.probe("subscriber_take_then_addon_drop")
            if any(e["by"] == "subscriber" for e in takes) and cmd_channel:
                res.probe("subscriber_take_then_command_channel")
            if truthy_ret and takes:
                res.probe("truthy_with_pending_take")
            raised_idx = [e["addon"] for e in entries if e["kind"] == "hook" and e.get("beh") == "raise"]
            if raised_idx and any(e["kind"] == "take" and e["by"].startswith("addon") and
                                  int(e["by"][5:]) > min(raised_idx) for e in entries):
                res.probe("raise_then_later_hook_takes")
            want_orig = 1 if sends else (0 if claimed else 1)
            # ---- wire ---------------------------------------------------------------------------------
            n_orig = 0
            acks_to_sender = []
            for e in a.emissions:
                try:
                    d_e, far_e, pe = parse_em(e)
                except Exception as ex:
                    return violate("C07/wire/unparseable", exc=repr(ex))
                if d_e == exp.direction:
                    me = TAG_RE.search(pe.body_plain)
                    if me and int(me.group(1)) == tag:
                        if (far_e, d_e, pe.pid) in rec.copy_sends:
                            continue
                        n_orig += 1
                        if any(x["kind"] == "mutate" for x in entries) and pe.body_plain != pin.body_plain:
                            res.probe("mutated_forward")
                else:
                    ids = L.packet_ack_ids(pe.body_plain, pe.extra_len)
                    if ids is not None and not (me_tag(pe)):
                        acks_to_sender.extend(ids)
            orig_emissions[tag] = orig_emissions.get(tag, 0) + n_orig
            if n_orig != want_orig:
                kind = "C07/wire/original-duplicated" if n_orig > 1 else (
                    "C07/wire/original-lost" if n_orig < want_orig else "C07/wire/claimed-original-forwarded")
                stale = [e for e in entries if e["kind"] == "stale_subscription_notified" and e.get("take")]
                if stale and n_orig < want_orig:
                    kind = "C07/isolation/stale-subscriber-took-message"
                return violate(kind, tag=tag, emitted=n_orig, want=want_orig, claimed=claimed,
                               stale=[{"how": e["how"], "mode": e["mode"]} for e in stale][:2],
                               log=[{k: v for k, v in e.items() if k in ("kind", "hook", "addon", "beh", "by", "ok")}
                                    for e in entries][:14])
            dropped = bool(drops) or bool(takes) or cmd_channel or (rlv_handled_cmds > 0)
            if swallowed:
                dropped = False
            want_acks = [pin.pid] if (dropped and not sends and pin.flags & L.RELIABLE) else []
            if sorted(a_ for a_ in acks_to_sender if a_ == pin.pid) != want_acks:
                return violate("C07/wire/dropped-reliable-ack", tag=tag, got=acks_to_sender, want=want_acks)
            # ---- bookkeeping: logged exactly once unless swallowed at packet level ---------------------
            n_logged = len([e for e in entries if e["kind"] == "logged" and not e["synthetic"]])
            want_logged = 0 if swallowed else 1
            if n_logged != want_logged:
                return violate("C07/isolation/logging", tag=tag, logged=n_logged, want=want_logged)

        obj_tracked = set()                       # far addrs whose RegionHandshake the proxy has seen
        obj_known: Dict[tuple, set] = {}          # far -> local ids the proxy must currently be tracking

        def check_object_hooks(exp, entries, st, locals_, hook, swallowed):
            """Object hooks are one more hook point: every addon's hook runs (until one returns truthy) for every
            object, whatever the ones before it did, and the object manager's own bookkeeping happens regardless."""
            if st is None:
                return
            n_add = cfg["n_addons"]
            chain = []
            for i in range(n_add):
                chain.append(i)
                if st["objhook"][i] == "truthy":
                    break
            groups: Dict[int, list] = {}
            for e in entries:
                if e["kind"] == "objhook" and e["hook"] == hook:
                    groups.setdefault(e["local"], []).append(e["addon"])
            known = obj_known.setdefault(exp.far, set())
            region = world.region_obj(0, exp.far)
            active = exp.far in obj_tracked and not swallowed
            for local in locals_:
                seq = groups.get(local, [])
                if len(seq) % len(chain) or seq != chain * (len(seq) // len(chain)):
                    return violate("C07/isolation/object-hooks-skipped", hook=hook, local=local, called=seq,
                                   chain=chain, behaviours=st["objhook"])
                if not active:
                    if seq and swallowed:
                        return violate("C07/isolation/hook-sequence", hook=hook, why="packet was claimed before parsing",
                                       called=seq)
                    continue
                must = (local not in known) if hook == "handle_object_updated" else (local in known)
                if must and len(seq) != len(chain):
                    return violate("C07/isolation/object-hooks-skipped", hook=hook, local=local, called=seq,
                                   chain=chain, behaviours=st["objhook"], why="first announcement" if
                                   hook == "handle_object_updated" else "kill of a tracked object")
                tracked_now = region is not None and region.objects.lookup_localid(local) is not None
                if hook == "handle_object_updated":
                    known.add(local)
                    if not tracked_now:
                        return violate("C07/isolation/bookkeeping-skipped", what="object not tracked after its update",
                                       local=local, behaviours=st["objhook"])
                else:
                    known.discard(local)
                    if tracked_now:
                        return violate("C07/isolation/bookkeeping-skipped", what="object still tracked after its kill",
                                       local=local, behaviours=st["objhook"])
                if any(st["objhook"][i] == "raise" for i in seq):
                    res.probe("object_hook_raised_then_others_ran" if len(seq) > 1 else "object_hook_raised_alone")
            if active:
                res.probe("object_update_hooks" if hook == "handle_object_updated" else "object_kill_hooks")

        def me_tag(pe):
            return TAG_RE.search(pe.body_plain) is not None

        def hook_raises(b, entries, i):
            # a behaviour that performs an op which legitimately raises (e.g. drop on an already finalized
            # message) never returns its truthy value
            for e in entries:
                if e.get("addon") is None:
                    continue
            for e in entries:
                if e["kind"] in ("drop", "send_orig") and e.get("by") == f"addon{i}" and e.get("ok") is False:
                    return True
            return False

        world.arrival_hooks.append(on_arrival)

        # copies sent later must appear exactly once each: checked at the end from the emission list
        driver.schedule(plan["steps"])
        end = (plan["steps"][-1]["at"] if plan["steps"] else 0) + cfg.get("tail", 1.5)
        why = loop.run_sim(until=end, max_iterations=400_000)
        if why == "cap":
            res.violate("HARNESS/iteration-cap")
        if not stopped:
            # every legal copy send => exactly one datagram with that wire id and tag
            seen: Dict[Tuple, int] = {}
            for e in world.emissions:
                try:
                    d_e, far_e, pe = parse_em(e)
                except Exception:
                    continue
                if (far_e, d_e, pe.pid) in rec.copy_sends and me_tag(pe):
                    seen[(far_e, d_e, pe.pid)] = seen.get((far_e, d_e, pe.pid), 0) + 1
            for key, tag in rec.copy_sends.items():
                if seen.get(key, 0) != 1:
                    violate("C07/wire/copy-count", tag=tag, wire=key[2], direction=key[1], emitted=seen.get(key, 0))
                    break
        if not stopped:
            # coroutine subscribers run as tasks: by the end of the run each has seen every dispatched message once
            n_handlers = {"session": 1, "region": 1}
            for level, kinds in (("session", cfg.get("plain_subs", [])), ("region", cfg.get("plain_subs_region", []))):
                for i, k_ in enumerate(kinds):
                    if k_ != "async_observe":
                        continue
                    for (lvl_, tag_), n_ in dispatched.items():
                        if lvl_ != level:
                            continue
                        got_ = async_seen.get((level, i, tag_), 0)
                        if got_ != n_:
                            violate("C07/isolation/subscriber-skipped", tag=tag_, level=level, coroutine=True,
                                    called=got_, want=n_, subs=kinds)
                            break
                    if stopped:
                        break
        if not stopped and any(s["op"] == "disconnect" for s in plan["steps"]):
            calls = [i for (h, i, _) in rec.lifecycle if h == "handle_session_closed"]
            if calls and calls != list(range(cfg["n_addons"])):
                violate("C07/isolation/lifecycle-hooks-skipped", hook="handle_session_closed", calls=calls)
            if calls and session in world.sm.sessions:
                violate("C07/isolation/bookkeeping-skipped", what="close_session")
        if not stopped:
            for ctx in loop.loop_exceptions:
                exc = ctx.get("exception")
                if exc is not None and not isinstance(exc, (asyncio.CancelledError, asyncio.TimeoutError)):
                    violate("C07/isolation/loop-exception", exc=repr(exc)[:200], msg=str(ctx.get("message"))[:160])
                    break
        for k, n in env.net.fault_counts.items():
            if k in ("delay", "dup", "drop"):
                res.fault(k, n)
        nb = sum(1 for s in plan["steps"] if s["op"] == "chat" and (
            any(b != "falsy" for b in s["pp"] + s["lludp"]) or any(b != "falsy" for row in s["rlv"] for b in row)))
        if nb:
            res.fault("scripted_hook_behaviours", nb)
        res.sim_time = loop.time()
        res.steps = len(plan["steps"])
        for a in world.arrivals:
            env.tr("arr", a.src, a.raw, [(e.dst, e.raw) for e in a.emissions])
            env.ab("A", len(a.emissions), a.escaped is not None)
        for e in rec.all:
            env.tr("rec", sorted((k, repr(v)) for k, v in e.items()))
            env.ab(e["kind"], e.get("hook"), e.get("beh"), e.get("by"))
        res.digest = env.digest()
        res.abstract = env.abstract_digest()
    return res

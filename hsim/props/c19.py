"""C19 - client endpoint: always ack, dispatch once, reliable sends complete on ack only.

Client world: real HippoClientSession / HippoClientRegion / HippoClientProtocol / Circuit and the
client's resend task against a stub simulator.  The simulator sends (un)reliable tagged packets and
retransmits them; the network duplicates, reorders, delays and drops both ways; acks for the client's
reliable sends come appended or as PacketAck, late, twice, bogus or never; the clock runs through
resend intervals.  Subscribers on the session-level *and* the region-level handler count
invocations per tag.
"""
from __future__ import annotations

import asyncio
import logging
import random
import struct
from typing import Dict, List, Tuple

from hsim.core.env import SimEnv
from hsim.core.net import Fate
from hsim.core.runner import RunResult
from hsim.gen import messages as G
from hsim.props.udp_common import rand_fate
from hsim.stubs import lludp as L
from hsim.worlds.client import ClientArrival, ClientWorld

PROPERTY = "C19"
CHUNK = {"quick": 40, "thorough": 100}
WINDOW = 1000    # see ASSUMPTIONS
PROBES = ["banned_message_refused", "reopened_with_reliable_sends_pending", "duplicate_beyond_window_unjudged", "window_filled", "retransmission_on_circuit_with_full_window", "retransmission_beyond_window_not_sent",
          "reliable_duplicate_delivered", "unreliable_duplicate_delivered", "ack_appended_completes",
          "ack_packetack_completes", "ack_before_send_ignored", "bogus_ack_ignored", "budget_exhausted",
          "resend_emitted", "ack_after_resend", "ping_reliable_duplicate", "retransmission_with_resent_flag",
          "duplicate_ack"]
COMPONENTS = {
    "real": ["HippoClientProtocol.datagram_received", "HippoClientSession / HippoClientRegion (message handlers, "
             "StartPingCheck responder)", "Circuit.send / send_reliable / collect_acks / resend_unacked / send_acks / "
             "track_reliable / prepare_message", "HippoClient._attempt_resends", "MessageHandler / Event",
             "UDPMessageDeserializer / Serializer"],
    "stub": ["simulator endpoint", "network (dup, reorder, delay, loss both ways)", "clock", "login + Seed/EQ HTTP "
             "(bypassed: session built from login data)", "aiohttp.ClientSession"],
}
ASSUMPTIONS = [
    "fewer than 1000 distinct reliable IDs lie between a packet and its duplicate (dedupe window is bounded by design)",
    "when the circuit is re-opened (HippoClientRegion.disconnect, then UseCircuitCode again) the reliable sends still "
    "pending from its previous life carry no further obligation; nothing of them may be retransmitted on the new one",
    "resend cadence is not judged here (C05 judges it for the proxy); budget and completion are",
]


def gen_plan(rng: random.Random, tier: str) -> dict:
    big = tier == "thorough"
    resend_every = rng.choice([0.5, 1.0, 3.0])
    lossy = rng.random() < 0.7
    cfg = {
        "resend_every": resend_every,
        "deferred": rng.random() < 0.8,
        "sys_faults": ({"p_delay": rng.choice([0.0, 0.3]), "p_drop": rng.choice([0.0, 0.2]),
                        "p_dup": rng.choice([0.0, 0.15]), "delay_scale": 0.05} if lossy else {}),
        "p_delay": rng.choice([0.0, 0.4]) if lossy else 0.0,
        "p_dup": rng.choice([0.1, 0.3]) if lossy else 0.0,
        "p_drop": rng.choice([0.0, 0.15]) if lossy else 0.0,
        "tail": round(11 * (resend_every + 0.5) + 1.0, 2),
    }
    n = rng.randint(4, 60 if big else 35)
    steps = []
    t = 0.01
    k = 0
    # a few runs are long-lived circuits: a burst of reliable traffic fills (or nearly fills) the receive-side
    # duplicate window before/while the interesting traffic flows
    flood_at = rng.randrange(0, max(1, n // 2)) if rng.random() < (0.12 if big else 0.04) else None
    flooded = False
    reconnect_at = rng.randrange(1, max(2, n)) if rng.random() < 0.15 else None
    p_wait = rng.choice([0.0, 0.0, 0.06, 0.15])
    for i_ in range(n):
        if rng.random() < p_wait:
            # somebody waits for the next chat (a one-off subscriber that removes itself when served) and somebody
            # else subscribes for good right behind it
            steps.append({"at": t, "op": "cwait", "level": rng.choice(["session", "region"]),
                          "key": rng.choice(["ChatFromSimulator", "*"])})
        if i_ == reconnect_at:
            # the simulator went away and the client re-opens the circuit (HippoClientRegion.disconnect / connect)
            # ("alive_on_ack": as HippoClientRegion.connect() does it - the circuit only counts as alive once the
            #  UseCircuitCode has been acknowledged)
            steps.append({"at": t, "op": "reconnect", "alive_on_ack": rng.random() < 0.5})
            t = round(t + 0.01, 4)
        if i_ == flood_at:
            steps.append({"at": t, "op": "flood", "n": rng.choice([900, 995, 999, 1000, 1001, 1040, 1500])})
            flooded = True
            t = round(t + 0.05, 4)
        t = round(t + rng.choice([0.0, 0.0, 0.01, 0.05, 0.25, 0.5, resend_every]), 4)
        x = rng.random()
        fate = rand_fate(rng, cfg["p_delay"], cfg["p_dup"], cfg["p_drop"])
        if x < 0.45:
            k += 1
            st = {"at": t, "op": "ssend", "tag": k, "name": "ping" if rng.random() < 0.25 else "chat",
                  # what a ping says about the sender's oldest unacknowledged packet: nothing, itself, or beyond
                  "oldest": rng.choice([0, 0, "self", "ahead"]),
                  "reliable": rng.random() < 0.6, "zerocoded": rng.random() < 0.3, "fate": fate}
            if rng.random() < 0.06:
                # a message that may only come over the event queue arrives over UDP: it is not handed to anybody, but
                # it is a received packet like any other (acknowledged if reliable, its appended acks count)
                st["name"] = "banned"
            if rng.random() < (0.6 if st["name"] == "banned" else 0.35):
                st["acks"] = rng.randint(1, 3)
                st["reack"] = rng.random() < 0.2
            if rng.random() < 0.08:
                st["bogus_ack"] = rng.choice([0, 1, 2, 5, 40])
            steps.append(st)
        elif x < 0.6:
            st = {"at": t, "op": "sresend", "which": rng.randrange(50), "fate": fate}
            if flooded and rng.random() < 0.7:
                st["recent"] = rng.choice([1, 1, 2, 2, 3, 5])     # counted back from the newest packet
            steps.append(st)
        elif x < 0.75:
            st = {"at": t, "op": "sack", "n": rng.randint(1, 3), "reack": rng.random() < 0.2, "fate": fate}
            if rng.random() < 0.15:
                st["bogus_ack"] = rng.choice([0, 1, 3, 7, 30])
            steps.append(st)
        else:
            k += 1
            steps.append({"at": t, "op": "csend", "tag": k, "reliable": rng.random() < 0.75,
                          "via": rng.choice(["send", "send_reliable"])})
            if rng.random() < 0.15:
                # whoever awaited the reliable send gives up (outer timeout) while it is still unacked
                steps[-1]["abandon_after"] = rng.choice([0.0, 0.05, resend_every * 1.5])
    return {"property": PROPERTY, "cfg": cfg, "steps": steps}


def simplify_step(step):
    if step["op"] == "flood":
        for n_ in (0, 1000, step["n"] - 1):
            if 0 <= n_ < step["n"]:
                yield {**step, "n": n_}
    if step.get("fate"):
        yield {**step, "fate": {}}
    for k in ("acks", "bogus_ack", "zerocoded", "reack"):
        if step.get(k) is not None and k in step:
            s = dict(step)
            s.pop(k)
            yield s
    if step.get("name") in ("ping", "banned"):
        yield {**step, "name": "chat"}


def simplify_plan(plan):
    cfg = plan["cfg"]
    if cfg.get("sys_faults"):
        yield {**plan, "cfg": {**cfg, "sys_faults": {}}}
    if not cfg.get("deferred"):
        yield {**plan, "cfg": {**cfg, "deferred": True}}


def run_plan(plan: dict) -> RunResult:
    from hippolyzer.lib.base.message.message import Block, Message
    from hippolyzer.lib.base.message.msgtypes import PacketFlags

    res = RunResult()
    cfg = plan["cfg"]
    stopped = []

    def violate(kind, /, **d):
        if not stopped:
            res.violate(kind, **d)
            stopped.append(1)

    with SimEnv(plan.get("seed", 0), sys_fault_cfg=cfg.get("sys_faults") or None, log_level=logging.ERROR) as env:
        loop = env.loop
        world = ClientWorld(env, cfg)
        world.client.settings.ENABLE_DEFERRED_PACKET_PARSING = bool(cfg.get("deferred", True))
        world.start()
        sim = world.sim
        session, region = world.session, world.region
        circuit = region.circuit

        # ---- subscribers ------------------------------------------------------------------------
        from hippolyzer.lib.base.message.circuit import ReliableResendInfo
        BUDGET = ReliableResendInfo.__dataclass_fields__["tries_left"].default    # the declared retry budget
        calls: Dict[Tuple[str, int], int] = {}     # (subscriber, tag) -> invocations

        def tag_of(msg):
            try:
                if msg.name == "ChatFromSimulator":
                    return int(str(msg["ChatData"]["FromName"]).strip("#"))
                if msg.name == "StartPingCheck":
                    return 1000 + int(msg["PingID"]["PingID"])
            except Exception:
                return None
            return None

        def make_sub(name):
            def _h(msg):
                t_ = tag_of(msg)
                if t_ is not None:
                    calls[(name, t_)] = calls.get((name, t_), 0) + 1
            return _h
        subs = {"session:name": (session.message_handler, "ChatFromSimulator"), "session:*": (session.message_handler, "*"),
                "region:name": (region.message_handler, "ChatFromSimulator"), "region:*": (region.message_handler, "*")}
        for sname, (handler, key) in subs.items():
            handler.subscribe(key, make_sub(sname))

        # ---- bookkeeping ----------------------------------------------------------------------------
        deliveries: Dict[int, int] = {}              # tag -> deliveries of that tag to the client
        first_delivery_handled: Dict[int, bool] = {}
        tag_info: Dict[int, dict] = {}               # tag -> {pid, reliable, name}
        sent_by_sim: List[dict] = []
        by_pid: Dict[int, dict] = {}
        rel_sent = [0]                               # reliable packets the simulator has sent so far
        rel_rx = [0]                                 # distinct reliable packets the client has received so far
        rel_rx_seen = set()
        unjudged_pings = set()
        client_sends: Dict[int, dict] = {}           # client pid -> {future, reliable, transmissions, body}
        last_first_pid = [-1]
        old_lives: List[dict] = []
        expected_calls: Dict[Tuple[str, int], int] = {}
        expected_pongs: Dict[int, int] = {}

        def on_emission(e):
            if stopped:
                return
            p = e.parsed
            if p is None:
                return violate("C19/emission/unparseable", raw=e.raw.hex()[:80])
            rec = client_sends.get(p.pid)
            is_ack_pkt = p.msg_key == ("Fixed", 0xFB)
            if p.flags & L.RESENT:
                res.probe("resend_emitted")
                if rec is None or not rec["reliable"]:
                    return violate("C19/ids/resend-of-unknown-id", pid=p.pid)
                if p.body_plain != rec["body"]:
                    return violate("C19/ids/resend-changed-body", pid=p.pid)
                if rec["done_at"] is not None:
                    return violate("C19/resend/after-completion", pid=p.pid, done_at=rec["done_at"], now=e.t)
                rec["transmissions"] += 1
                if rec["transmissions"] > BUDGET:
                    return violate("C19/resend/over-budget", pid=p.pid, transmissions=rec["transmissions"])
                return
            if p.pid <= last_first_pid[0]:
                return violate("C19/ids/not-increasing", pid=p.pid, previous=last_first_pid[0], packet_ack=is_ack_pkt)
            last_first_pid[0] = p.pid
            if rec is None:
                client_sends[p.pid] = {"future": None, "reliable": bool(p.flags & L.RELIABLE), "transmissions": 1,
                                       "body": p.body_plain, "done_at": None, "acked_at": None, "first_at": e.t}
        world.emission_hooks.append(on_emission)

        done_before: Dict[int, bool] = {}

        def pre_deliver(kind, t, src, dst, data):
            if kind == "deliver" and dst == world.client_addr:
                done_before.clear()
                for pid, rec in client_sends.items():
                    if rec["future"] is not None:
                        done_before[pid] = rec["future"].done()
        world.net.taps.insert(0, pre_deliver)

        def on_arrival(a: ClientArrival):
            if stopped:
                return
            p = a.parsed
            if p is None or a.src != world.sim_addr:
                return
            if a.escaped is not None:
                banned_ = next((s_ for s_ in sent_by_sim if s_["pid"] == p.pid), {}).get("name") == "banned"
                if not (banned_ and isinstance(a.escaped, PermissionError)):
                    return violate("C19/arrival/exception-escaped", exc=repr(a.escaped)[:200])
                res.probe("banned_message_refused")
            # (1) always ack
            if p.flags & L.RELIABLE:
                acked = False
                for e in a.emissions:
                    if e.parsed is not None:
                        ids = L.packet_ack_ids(e.parsed.body_plain, e.parsed.extra_len)
                        if ids and p.pid in ids and e.dst == world.sim_addr:
                            acked = True
                if not acked:
                    return violate("C19/ack/missing", pid=p.pid, resent=bool(p.flags & L.RESENT),
                                   emissions=len(a.emissions))
            # (2) dispatch bookkeeping
            info = by_pid.get(p.pid)
            if info is None:
                info = by_pid[p.pid] = next((s for s in sent_by_sim if s["pid"] == p.pid), None) or {}
            if p.flags & L.RELIABLE and p.pid not in rel_rx_seen:
                rel_rx_seen.add(p.pid)
                rel_rx[0] += 1
                if info:
                    info["rx_seq"] = rel_rx[0]
            if info.get("tag") is not None and info["reliable"] and deliveries.get(info["tag"], 0) >= 1 \
                    and rel_rx[0] - info.get("rx_seq", rel_rx[0]) >= WINDOW - 1:
                # outside the stated assumption (the network held a duplicate back across a whole window of newer
                # reliable packets): either outcome is accepted for this tag from here on
                res.probe("duplicate_beyond_window_unjudged")
                tag = info["tag"]
                ctag = tag if info["name"] == "chat" else 1000 + (tag & 0xFF)
                for sname in subs:
                    expected_calls[(sname, ctag)] = calls.get((sname, ctag), 0)
                if info["name"] == "ping":
                    unjudged_pings.add(tag & 0xFF)
            elif info.get("tag") is not None:
                tag = info["tag"]
                n_prev = deliveries.get(tag, 0)
                deliveries[tag] = n_prev + 1
                inc = 1 if (not info["reliable"] or n_prev == 0) else 0
                if n_prev >= 1:
                    res.probe("reliable_duplicate_delivered" if info["reliable"] else "unreliable_duplicate_delivered")
                    if info["name"] == "ping" and info["reliable"]:
                        res.probe("ping_reliable_duplicate")
                ctag = tag if info["name"] == "chat" else 1000 + (tag & 0xFF)
                for sname in subs:
                    if info["name"] != "chat" and sname.endswith(":name"):
                        continue
                    key = (sname, ctag)
                    expected_calls[key] = expected_calls.get(key, 0) + inc
                    if calls.get(key, 0) != expected_calls[key]:
                        kind = ("C19/dispatch/duplicate-delivered" if calls.get(key, 0) > expected_calls[key]
                                else "C19/dispatch/lost")
                        return violate(kind, subscriber=sname, tag=tag, reliable=info["reliable"],
                                       deliveries=deliveries[tag], calls=calls.get(key, 0), want=expected_calls[key])
                if info["name"] == "ping":
                    expected_pongs[tag & 0xFF] = expected_pongs.get(tag & 0xFF, 0) + inc
            # (3) completion of reliable sends: exactly in the event that processed their ack
            acks_in = list(p.acks)
            ids = L.packet_ack_ids(p.body_plain, p.extra_len)
            if ids:
                acks_in.extend(ids)
            for pid, rec in client_sends.items():
                fut = rec["future"]
                if pid in acks_in and rec["reliable"] and rec["acked_at"] is None and rec["done_at"] is None:
                    rec["acked_at"] = a.t
                    res.probe("ack_packetack_completes" if ids and pid in ids else "ack_appended_completes")
                    if rec["transmissions"] > 1:
                        res.probe("ack_after_resend")
                elif pid in acks_in and rec["acked_at"] is not None:
                    res.probe("duplicate_ack")
                if fut is None:
                    continue
                was, now = done_before.get(pid, False), fut.done()
                acked_now = rec["acked_at"] == a.t and pid in acks_in
                if now and not was:
                    if not acked_now:
                        return violate("C19/complete/without-ack", pid=pid, acks_in=acks_in)
                    if fut.cancelled() or fut.exception() is not None:
                        return violate("C19/complete/ack-but-failed", pid=pid)
                    rec["done_at"] = a.t
                elif acked_now and not now:
                    return violate("C19/complete/ack-not-signalled", pid=pid, acks_in=acks_in)
            for x in acks_in:
                if x not in client_sends:
                    res.probe("ack_before_send_ignored")
                elif not client_sends[x]["reliable"]:
                    res.probe("bogus_ack_ignored")
        world.arrival_hooks.append(on_arrival)

        # ---- ops ----------------------------------------------------------------------------------------
        def op_ssend(st):
            tag = st["tag"]
            if st["name"] == "ping":
                nxt = sim.next_pid if hasattr(sim, "next_pid") else 0
                oldest = {0: 0, "self": nxt, "ahead": nxt + 5}.get(st.get("oldest", 0), 0)
                if oldest:
                    res.probe("ping_names_an_oldest_unacked_id")
                body = b"\x01" + struct.pack("<B", tag & 0xFF) + struct.pack("<I", oldest)
            elif st["name"] == "banned":
                res.fault("udp_banned_message_received")
                body = G.templates().get_template_by_name("EnableSimulator").freq_num_bytes + struct.pack(
                    "<Q", 0x1234) + bytes([10, 9, 8, 7]) + struct.pack(">H", 13999)
                tag = None
            else:
                body = G.chat_from_simulator_body("hi", from_name=f"#{tag}#", chat_type=1)
            acks = sim.pick_acks(st.get("acks", 0), reack=st.get("reack", False)) if st.get("acks") else []
            if st.get("bogus_ack") is not None:
                acks = acks + [st["bogus_ack"]]
            flags = (L.RELIABLE if st.get("reliable") else 0) | (L.ZEROCODED if st.get("zerocoded") else 0)
            pid = sim.alloc_pid()
            dg = L.build_datagram(flags, pid, 0, body, acks)
            if st.get("reliable"):
                rel_sent[0] += 1
            sent_by_sim.append({"pid": pid, "tag": tag, "reliable": bool(st.get("reliable")), "name": st["name"],
                                "rel_seq": rel_sent[0],
                                "resend": L.build_datagram(flags | L.RESENT, pid, 0, body, ())})
            sim.send(dg, Fate.from_json(st.get("fate")))

        def op_flood(st):
            # untagged reliable packets, back to back; only "always ack" is judged on them
            res.probe("window_filled" if st["n"] + rel_sent[0] >= WINDOW else "burst_below_window")
            for _ in range(st["n"]):
                pid = sim.alloc_pid()
                rel_sent[0] += 1
                sim.send(L.build_datagram(L.RELIABLE, pid, 0, b"\x01\x00" + struct.pack("<I", 0)), Fate())

        def op_sresend(st):
            tagged = [s_ for s_ in sent_by_sim if s_.get("tag") is not None] if st.get("recent") else sent_by_sim
            if not tagged:
                return
            info = tagged[-min(st["recent"], len(tagged))] if st.get("recent") else tagged[st["which"] % len(tagged)]
            if info["reliable"] and rel_sent[0] - info["rel_seq"] >= WINDOW - 1:
                # outside the stated assumption: that many newer reliable packets may push it out of any window
                res.probe("retransmission_beyond_window_not_sent")
                return
            if rel_sent[0] >= WINDOW and info["reliable"]:
                res.probe("retransmission_on_circuit_with_full_window")
            res.fault("sim_retransmit")
            res.probe("retransmission_with_resent_flag")
            sim.send(info["resend"], Fate.from_json(st.get("fate")))

        def op_sack(st):
            ids = sim.pick_acks(st.get("n", 1), reack=st.get("reack", False))
            if st.get("bogus_ack") is not None:
                ids = ids + [st["bogus_ack"]]
            if not ids:
                return
            pid = sim.alloc_pid()
            sent_by_sim.append({"pid": pid, "tag": None, "reliable": False, "name": "ack", "resend": b"",
                                "rel_seq": rel_sent[0]})
            sim.send(L.build_datagram(0, pid, 0, L.packet_ack_body(ids)), Fate.from_json(st.get("fate")))

        def op_csend(st):
            msg = Message("ChatFromViewer",
                          Block("AgentData", AgentID=session.agent_id, SessionID=session.id),
                          Block("ChatData", Message=f"#{st['tag']}#", Type=1, Channel=0))
            n0 = len(world.emissions)
            fut = None
            if st["via"] == "send_reliable":
                fut = circuit.send_reliable(msg)
            else:
                if st.get("reliable"):
                    msg.send_flags |= PacketFlags.RELIABLE
                circuit.send(msg)
                info = circuit.unacked_reliable.get((msg.direction, msg.packet_id))
                fut = info.completed if info is not None else None
            if len(world.emissions) != n0 + 1 or stopped:
                return violate("C19/send/emission-count", emitted=len(world.emissions) - n0)
            rec = client_sends.get(msg.packet_id)
            if rec is None:
                return violate("C19/send/id-mismatch", pid=msg.packet_id)
            if fut is not None:
                rec["future"] = fut

                def _done(f, rec=rec, pid=msg.packet_id):
                    if f.cancelled():
                        return
                    exc = f.exception()
                    if exc is not None:
                        rec["failed_at"] = loop.time()
                        rec["failed_tx"] = rec["transmissions"]
                        rec["failed_exc"] = type(exc).__name__
                fut.add_done_callback(_done)
                if st.get("abandon_after") is not None:
                    def _abandon(fut=fut, rec=rec):
                        if not fut.done():
                            res.fault("awaiter_gave_up")
                            fut.cancel()
                            rec["future"] = None      # nobody is waiting any more; acks and resends go on as usual
                    loop.call_later(st["abandon_after"], _abandon)

        waiters = []

        def op_cwait(st):
            handler = session.message_handler if st["level"] == "session" else region.message_handler
            n_ = len(waiters)
            waiters.append(handler.wait_for((st["key"],), take=False))
            sname = f"late{n_}:{st['level']}:" + ("name" if st["key"] != "*" else "*")
            subs[sname] = (handler, st["key"])
            handler.subscribe(st["key"], make_sub(sname))
            res.probe("subscriber_registered_behind_a_one_off_waiter")

        def op_reconnect(st):
            res.fault("circuit_reopened")
            if any(r_["reliable"] and r_["acked_at"] is None and r_["done_at"] is None and r_["future"] is not None
                   and not r_["future"].done() for r_ in client_sends.values()):
                res.probe("reopened_with_reliable_sends_pending")
            region.disconnect()
            # sends of the previous life of the circuit carry no further obligation (and no retransmission of them
            # belongs on the new one); IDs start over
            old_lives.append(dict(client_sends))
            client_sends.clear()
            last_first_pid[0] = -1
            ucc = Message("UseCircuitCode", Block("CircuitCode", Code=session.circuit_code,
                                                  SessionID=session.id, ID=session.agent_id))
            fut = circuit.send_reliable(ucc)
            rec = client_sends.get(ucc.packet_id)
            if rec is not None:
                rec["future"] = fut

                def _done(f, rec=rec):
                    if f.cancelled():
                        return
                    exc = f.exception()
                    if exc is not None:
                        rec["failed_at"] = loop.time()
                        rec["failed_tx"] = rec["transmissions"]
                        rec["failed_exc"] = type(exc).__name__
                    else:
                        circuit.is_alive = True
                fut.add_done_callback(_done)
            if st.get("alive_on_ack"):
                res.probe("circuit_alive_only_once_acknowledged")
            else:
                circuit.is_alive = True

        ops = {"ssend": op_ssend, "sresend": op_sresend, "sack": op_sack, "csend": op_csend, "flood": op_flood,
               "reconnect": op_reconnect, "cwait": op_cwait}
        for i, st in enumerate(plan["steps"]):
            def _run(i=i, st=st):
                env.tr("step", i, st["op"])
                env.ab(st["op"], st.get("name", ""), bool(st.get("reliable")))
                ops[st["op"]](st)
            loop.call_at(st["at"], _run)
        end = (plan["steps"][-1]["at"] if plan["steps"] else 0) + cfg["tail"]
        why = loop.run_sim(until=end, max_iterations=400_000)
        if why == "cap":
            res.violate("HARNESS/iteration-cap")
        # ---- end-of-run checks ------------------------------------------------------------------------------
        if not stopped:
            for pid, rec in client_sends.items():
                if not rec["reliable"] or rec["future"] is None:
                    continue
                fut = rec["future"]
                if rec["acked_at"] is None:
                    if not fut.done():
                        violate("C19/complete/never-failed", pid=pid, transmissions=rec["transmissions"])
                        break
                    if rec.get("failed_exc") != "TimeoutError":
                        violate("C19/complete/wrong-failure", pid=pid, exc=rec.get("failed_exc"))
                        break
                    if rec.get("failed_tx") != BUDGET:
                        violate("C19/resend/budget", pid=pid, transmissions_at_failure=rec.get("failed_tx"), want=BUDGET)
                        break
                    res.probe("budget_exhausted")
        if not stopped:
            # StartPingCheck responder: one CompletePingCheck per dispatched ping
            pongs: Dict[int, int] = {}
            for e in world.emissions:
                if e.parsed is not None and e.parsed.msg_key == ("High", 2):
                    pid_ = e.parsed.body_plain[1]
                    pongs[pid_] = pongs.get(pid_, 0) + 1
            for k_, want in expected_pongs.items():
                if pongs.get(k_, 0) != want and k_ not in unjudged_pings:
                    violate("C19/dispatch/ping-replies", ping=k_, replies=pongs.get(k_, 0), want=want)
                    break
        if not stopped:
            for ctx in loop.loop_exceptions:
                exc = ctx.get("exception")
                if exc is not None and not isinstance(exc, (TimeoutError, asyncio.CancelledError)):
                    violate("C19/loop-exception", exc=repr(exc)[:200], msg=str(ctx.get("message"))[:160])
                    break
        for k_, n_ in env.net.fault_counts.items():
            if k_ in ("delay", "dup", "drop"):
                res.fault(k_, n_)
        res.sim_time = loop.time()
        res.steps = len(plan["steps"])
        for a in world.arrivals:
            env.tr("arr", a.raw, [e.raw for e in a.emissions])
            env.ab("A", bool(a.parsed and a.parsed.flags & L.RELIABLE), len(a.emissions))
        for e in world.emissions:
            if e.cause is None:
                env.tr("em", round(e.t, 4), e.raw)
                env.ab("E", bool(e.parsed and e.parsed.flags & L.RESENT))
        res.digest = env.digest()
        res.abstract = env.abstract_digest()
        world.shutdown()
    return res

"""C20 (transfer clause) - a chunked file transfer reassembles to exactly the payload that was sent
and completes exactly when all chunks up to the end-marked one have arrived, whatever the arrival
order or duplication.  (The codec clause of C20 - inventory / animation / mesh round trips - is a
pure function of its input and is not decided by simulation; see DESIGN §5.)

Client world.  Downloads: ``XferManager.request`` (turbo on/off) and ``TransferManager.request``;
the simulator stub serves a payload as SendXferPacket / TransferInfo + TransferPacket chunks in a
scheduler-chosen order with duplicates, delays, loss, late retransmissions and chunks of foreign
transfers.  Uploads: ``XferManager.upload_asset`` (Xfer strategy) against a stub that requests the file
and confirms chunks.
"""
from __future__ import annotations

import asyncio
import logging
import random
import struct
from typing import Dict, List, Optional

from hsim.core.env import SimEnv
from hsim.core.net import Fate
from hsim.core.runner import RunResult
from hsim.props.udp_common import rand_fate
from hsim.stubs import lludp as L
from hsim.worlds.client import ClientWorld

PROPERTY = "C20"
CHUNK = {"quick": 40, "thorough": 100}
PROBES = ["end_marked_chunk_arrived_early", "duplicate_chunk", "foreign_chunk_ignored", "completed", "timed_out",
          "single_chunk_payload", "empty_payload", "size_known_resolved", "info_after_packets", "upload_completed",
          "upload_failed_under_faults", "turbo", "chunk_boundary_payload", "late_chunk_after_completion",
          "reordered_delivery", "ambiguous_silence_not_judged"]
COMPONENTS = {
    "real": ["XferManager.request / _pump_xfer_replies / _handle_send_xfer_packet / upload_asset / "
             "serve_inbound_xfer_request", "Xfer", "TransferManager.request / _pump_transfer_replies / "
             "_handle_transfer_packet / _handle_transfer_info", "Transfer", "HippoClientProtocol + Circuit (acks, "
             "dedupe, reliable sends)", "MessageHandler.subscribe_async / wait_for"],
    "stub": ["simulator (serves chunks, confirms upload chunks)", "network", "clock"],
}
ASSUMPTIONS = [
    "only the transfer clause of C20 is decided here; the codec round trips are pure functions (not applicable)",
    "silences are generated either clearly shorter (<4.5 s) or clearly longer (>5.5 s) than the 5 s transfer timeout",
    "completion is observed once the loop has drained the instant in which the deciding chunk was delivered "
    "(the managers process chunks in a pump task, one loop iteration after delivery)",
]

SIZES_DL = [0, 1, 2, 5]
XFER_ID = 0x1122334455667788
FOREIGN_XFER_ID = 0x0F0F0F0F0F0F0F0F


def gen_plan(rng: random.Random, tier: str) -> dict:
    big = tier == "thorough"
    kind = rng.choice(["xfer", "xfer", "transfer", "transfer", "upload"])
    lossy = rng.random() < 0.6
    cfg = {
        "kind": kind,
        "deferred": rng.random() < 0.8,
        "resend_every": 1.0,
        "turbo": rng.random() < 0.4,
        "sys_faults": ({"p_delay": 0.3, "p_drop": rng.choice([0.0, 0.1]), "p_dup": rng.choice([0.0, 0.1]),
                        "delay_scale": 0.02} if lossy and rng.random() < 0.5 else {}),
        "payload_seed": rng.randrange(1 << 30),
    }
    p_delay = rng.choice([0.0, 0.5]) if lossy else 0.0
    p_dup = rng.choice([0.0, 0.2]) if lossy else 0.0
    p_drop = rng.choice([0.0, 0.15]) if lossy else 0.0
    steps = []
    if kind == "upload":
        base = rng.choice([1, 1145, 1146, 1147, 2295, 2296, 2297, 3446, 3500])
        cfg["size"] = base
        cfg["confirm_fate"] = {"p_delay": p_delay, "p_dup": p_dup, "p_drop": rng.choice([0.0, 0.0, 0.1]) if lossy else 0.0}
        cfg["request_delay"] = rng.choice([0.0, 0.01, 0.3])
        cfg["tail"] = 40.0
        steps.append({"at": 0.01, "op": "upload"})
        return {"property": PROPERTY, "cfg": cfg, "steps": steps}
    csize = rng.choice([1, 3, 8, 20, 1000])
    n_chunks = rng.choice([1, 1, 2, 3, 4, 6, 9]) if not big else rng.choice([1, 2, 3, 5, 8, 12, 16])
    last = rng.choice([0, 1, csize - 1, csize]) if csize > 1 else rng.choice([0, 1])
    size = max(0, (n_chunks - 1) * csize + last)
    if kind == "xfer":
        # chunk 0 carries a 4-byte length prefix in front of the data
        pass
    cfg.update({"size": size, "chunk": csize, "tail": 8.0})
    steps.append({"at": 0.01, "op": "request"})
    total = max(1, -(-size // csize)) if size else 1
    if kind == "xfer" and size == 0:
        total = 1
    order = list(range(total))
    mode = rng.random()
    if mode < 0.3:
        pass
    elif mode < 0.5:
        order.reverse()
    else:
        rng.shuffle(order)
    # duplicates / omissions / late retransmissions
    seq = []
    for i in order:
        if rng.random() < 0.12:
            continue  # lost at the source; may be re-sent later
        seq.append(i)
        if rng.random() < 0.2:
            seq.append(i)
    missing = [i for i in range(total) if i not in seq]
    if missing and rng.random() < 0.8:
        rng.shuffle(missing)
        seq.extend(missing)
    if rng.random() < 0.2 and seq:
        seq.append(rng.choice(seq))   # a late duplicate, possibly after completion
    t = 0.02
    if kind == "transfer":
        info_at = rng.choice(["first", "middle", "last", "never"])
    else:
        info_at = None
    long_gap_used = False
    for k, i in enumerate(seq):
        gap = rng.choice([0.0, 0.0, 0.001, 0.01, 0.1, 1.0, 4.4])
        if not long_gap_used and rng.random() < 0.04:
            gap = 5.6
            long_gap_used = True
        t = round(t + gap, 4)
        if info_at == "first" and k == 0 or info_at == "middle" and k == len(seq) // 2 and k > 0:
            steps.append({"at": t, "op": "info", "fate": rand_fate(rng, p_delay, 0.0, 0.0, 0.02)})
        st = {"at": t, "op": "chunk", "i": i, "reliable": rng.random() < 0.5,
              "fate": rand_fate(rng, p_delay, p_dup, p_drop, 0.02)}
        steps.append(st)
        if rng.random() < 0.1:
            steps.append({"at": t, "op": "foreign", "i": rng.randrange(total), "eof": rng.random() < 0.5})
    if info_at == "last":
        steps.append({"at": round(t + 0.01, 4), "op": "info", "fate": {}})
    return {"property": PROPERTY, "cfg": cfg, "steps": steps}


def simplify_step(step):
    if step.get("fate"):
        yield {**step, "fate": {}}
    if step.get("reliable"):
        yield {**step, "reliable": False}


def simplify_plan(plan):
    cfg = plan["cfg"]
    if cfg.get("sys_faults"):
        yield {**plan, "cfg": {**cfg, "sys_faults": {}}}
    if cfg.get("turbo"):
        yield {**plan, "cfg": {**cfg, "turbo": False}}
    if not cfg.get("deferred"):
        yield {**plan, "cfg": {**cfg, "deferred": True}}
    # compact time
    steps = plan["steps"]
    if any(b["at"] - a["at"] > 0.02 for a, b in zip(steps, steps[1:])):
        t = 0.01
        new = []
        for s in steps:
            new.append({**s, "at": round(t, 4)})
            t += 0.01
        yield {**plan, "steps": new}


def payload_of(cfg) -> bytes:
    rng = random.Random(cfg["payload_seed"])
    return bytes(rng.randrange(256) for _ in range(cfg["size"]))


def run_plan(plan: dict) -> RunResult:
    from hippolyzer.lib.base.datatypes import UUID
    from hippolyzer.lib.base.templates import (AssetType, TransferRequestParamsAsset, TransferSourceType)
    from hippolyzer.lib.base.xfer_manager import UploadStrategy

    res = RunResult()
    cfg = plan["cfg"]
    kind = cfg["kind"]
    payload = payload_of(cfg)
    stopped = []

    def violate(k, /, **d):
        if not stopped:
            res.violate(k, **d)
            stopped.append(1)

    with SimEnv(plan.get("seed", 0), sys_fault_cfg=cfg.get("sys_faults") or None, log_level=logging.ERROR) as env:
        loop = env.loop
        world = ClientWorld(env, cfg)
        world.client.settings.ENABLE_DEFERRED_PACKET_PARSING = bool(cfg.get("deferred", True))
        world.start()
        sim, region = world.sim, world.region
        state = {"obj": None, "t_request": None, "last_dispatch": None, "complete_at": None, "failed_expected": False,
                 "have": set(), "eof": None, "info_seen": False}
        transfer_id = UUID(bytes=bytes(range(16)))
        seen_reliable_pids = set()

        # ---- chunking at the source -----------------------------------------------------------
        if kind != "upload":
            csize = cfg["chunk"]
            pieces = [payload[i:i + csize] for i in range(0, len(payload), csize)] or [b""]
            total = len(pieces)
            if kind == "xfer":
                wire_pieces = [struct.pack("<i", len(payload)) + pieces[0]] + pieces[1:]
            else:
                wire_pieces = pieces
            if total == 1:
                res.probe("single_chunk_payload")
            if not payload:
                res.probe("empty_payload")
            if payload and len(payload) % csize == 0:
                res.probe("chunk_boundary_payload")

        def chunk_datagram(i, reliable, xfer_id=XFER_ID, eof=None, data=None) -> bytes:
            is_eof = (i == total - 1) if eof is None else eof
            data = wire_pieces[i] if data is None else data
            if kind == "xfer":
                body = b"\x12" + struct.pack("<Q", xfer_id) + struct.pack("<I", i | (0x80000000 if is_eof else 0)) \
                    + struct.pack("<H", len(data)) + data
            else:
                tid = transfer_id.bytes if xfer_id == XFER_ID else bytes(16)
                body = b"\x11" + tid + struct.pack("<i", 2) + struct.pack("<i", i) \
                    + struct.pack("<i", 1 if is_eof else 0) + struct.pack("<H", len(data)) + data
            return L.build_datagram(L.RELIABLE if reliable else 0, sim.alloc_pid(), 0, body)

        def successful(obj) -> bool:
            f = obj._future
            return f.done() and not f.cancelled() and f.exception() is None

        def failed(obj) -> bool:
            f = obj._future
            return f.done() and (f.cancelled() or f.exception() is not None)

        # ---- download oracle: evaluated once the loop has drained the instant of each delivery --------------
        def after_instant(reason, complete_when_scheduled):
            if stopped or state["obj"] is None:
                return
            obj = state["obj"]
            now = loop.time()
            model_complete_now = state["eof"] is not None and all(k in state["have"] for k in range(state["eof"] + 1))
            if state["failed_expected"] or state.get("ambiguous"):
                return
            if successful(obj) and not model_complete_now:
                missing = ([k for k in range((state["eof"] or 0) + 1) if k not in state["have"]]
                           if state["eof"] is not None else "no end-marked chunk yet")
                return violate("C20/complete/early", xkind=kind, have=sorted(state["have"]), eof=state["eof"],
                               missing=missing, reason=reason)
            # lateness is judged against the deliveries that had happened when this check was scheduled
            model_complete = complete_when_scheduled
            if model_complete and state["complete_at"] is None:
                state["complete_at"] = now
            if model_complete and not obj._future.done():
                return violate("C20/complete/late", xkind=kind, have=sorted(state["have"]), eof=state["eof"])
            if model_complete and failed(obj):
                return violate("C20/complete/failed-although-complete", xkind=kind,
                               exc=repr(obj._future.exception())[:120])
            if model_complete:
                got = bytes(obj.reassemble_chunks())
                if got != payload:
                    return violate("C20/payload/mismatch", xkind=kind, want_len=len(payload), got_len=len(got),
                                   want=payload[:40].hex(), got=got[:40].hex())
                res.probe("completed")

        def on_arrival(a):
            if stopped or state["obj"] is None or a.parsed is None:
                return
            p = a.parsed
            if a.escaped is not None:
                return violate("C20/arrival/exception-escaped", exc=repr(a.escaped)[:200])
            key = p.msg_key
            dispatched = True
            if p.flags & L.RELIABLE:
                if p.pid in seen_reliable_pids:
                    dispatched = False
                seen_reliable_pids.add(p.pid)
            if not dispatched:
                return
            relevant = False
            state["model_complete_before"] = bool(state.get("model_complete"))
            b = p.body_plain
            if kind == "xfer" and key == ("High", 18):
                xid, pk = struct.unpack("<QI", b[1:13])
                if xid == XFER_ID:
                    relevant = True
                    i = pk & 0x7FFFFFFF
                    note_chunk(i, bool(pk & 0x80000000))
                else:
                    res.probe("foreign_chunk_ignored")
            elif kind == "transfer" and key == ("High", 17):
                if b[1:17] == transfer_id.bytes:
                    relevant = True
                    _, i, status = struct.unpack("<iii", b[17:29])
                    note_chunk(i, status == 1)
                else:
                    res.probe("foreign_chunk_ignored")
            elif kind == "transfer" and key == ("Low", 154):
                relevant = True
                if not state.get("model_complete"):
                    state["info_seen"] = True
                if state["have"]:
                    res.probe("info_after_packets")
            if relevant:
                # silence longer than the transfer timeout before this message => the transfer has failed
                ref = state["last_dispatch"] if state["last_dispatch"] is not None else state["t_request"]
                if not state.get("model_complete_before"):
                    gap = a.t - ref
                    if gap > 5.5:
                        state["failed_expected"] = True
                    elif gap > 4.5:
                        # too close to the 5 s timeout to call (delays can add up to the boundary): stop judging
                        state["ambiguous"] = True
                        res.probe("ambiguous_silence_not_judged")
                state["last_dispatch"] = a.t
                loop.call_later(0.0004, after_instant, "delivery", bool(state.get("model_complete")))

        def note_chunk(i, is_eof):
            if state.get("model_complete"):
                res.probe("late_chunk_after_completion")
                return
            if i in state["have"]:
                res.probe("duplicate_chunk")
            elif state["have"] and i < max(state["have"]):
                res.probe("reordered_delivery")
            state["have"].add(i)
            if is_eof:
                if state["eof"] is None and any(k not in state["have"] for k in range(i)):
                    res.probe("end_marked_chunk_arrived_early")
                state["eof"] = i
            if state["eof"] is not None and all(k in state["have"] for k in range(state["eof"] + 1)):
                state["model_complete"] = True
        world.arrival_hooks.append(on_arrival)

        # ---- ops ------------------------------------------------------------------------------------------
        def op_request(st):
            state["t_request"] = loop.time()
            if kind == "xfer":
                if cfg.get("turbo"):
                    res.probe("turbo")
                state["obj"] = region.xfer_manager.request(xfer_id=XFER_ID, file_name="inventory_x.tmp", turbo=cfg["turbo"])
            else:
                params = TransferRequestParamsAsset(FileName="", Delete=False, AssetID=UUID(bytes=b"\x07" * 16),
                                                    AssetType=AssetType.NOTECARD)
                state["obj"] = region.transfer_manager.request(source_type=TransferSourceType.ASSET, params=params,
                                                               transfer_id=transfer_id)

        def op_chunk(st):
            if st["i"] >= total:
                return
            sim.send(chunk_datagram(st["i"], st.get("reliable")), Fate.from_json(st.get("fate")))

        def op_foreign(st):
            res.fault("foreign_chunk")
            i = st["i"] % total
            sim.send(chunk_datagram(i, False, xfer_id=FOREIGN_XFER_ID, eof=st.get("eof"), data=b"\xEE" * 5))

        def op_info(st):
            body = b"\xff\xff\x00\x9a" + transfer_id.bytes + struct.pack("<iiii", 2, 2, 0, len(payload)) + struct.pack("<H", 0)
            sim.send(L.build_datagram(L.RELIABLE | L.ZEROCODED, sim.alloc_pid(), 0, body), Fate.from_json(st.get("fate")))

        # ---- upload: the stub plays the simulator side of the Xfer upload path -------------------------------
        up = {"fut": None, "chunks": {}, "eof": None, "asset_id": None, "xfer_id": 0x7777, "requested": False,
              "completed_sent": False}

        def op_upload(st):
            tid = UUID(bytes=b"\x42" * 16)
            up["asset_id"] = UUID.combine(tid, world.session.secure_session_id)
            up["fut"] = region.xfer_manager.upload_asset(AssetType.NOTECARD, payload, transaction_id=tid,
                                                         upload_strategy=UploadStrategy.XFER)
            up["fut"].add_done_callback(lambda f: f.exception() if not f.cancelled() else None)

        def confirm_fate():
            c = cfg["confirm_fate"]
            return Fate.from_json(rand_fate(urng, c["p_delay"], c["p_dup"], c["p_drop"], 0.02))
        urng = random.Random(cfg["payload_seed"] ^ 0x5555)

        def sim_rx(rec):
            p = rec.get("parsed")
            if p is None or kind != "upload":
                return
            b = p.body_plain
            if p.msg_key == ("Low", 333) and not up["requested"]:
                up["requested"] = True
                body = (b"\xff\xff\x00\x9c" + struct.pack("<Q", up["xfer_id"]) + b"\x00" + b"\x00\x01\x00"
                        + up["asset_id"].bytes + struct.pack("<h", 7))

                def _req():
                    sim.send(L.build_datagram(L.RELIABLE | L.ZEROCODED, sim.alloc_pid(), 0, body))
                loop.call_later(cfg.get("request_delay", 0.0), _req)
            elif p.msg_key == ("High", 18):
                xid, pk = struct.unpack("<QI", b[1:13])
                if xid != up["xfer_id"]:
                    return
                n = struct.unpack("<H", b[13:15])[0]
                i = pk & 0x7FFFFFFF
                up["chunks"][i] = b[15:15 + n]
                if pk & 0x80000000:
                    up["eof"] = i
                sim.send(L.build_datagram(0, sim.alloc_pid(), 0, b"\x13" + struct.pack("<QI", xid, i)), confirm_fate())
                if up["eof"] is not None and all(k in up["chunks"] for k in range(up["eof"] + 1)) \
                        and not up["completed_sent"]:
                    up["completed_sent"] = True
                    body = b"\xff\xff\x01\x4e" + up["asset_id"].bytes + struct.pack("<b", 7) + b"\x01"
                    loop.call_later(0.05, lambda: sim.send(L.build_datagram(L.RELIABLE, sim.alloc_pid(), 0, body)))
        sim.rx_hooks.append(sim_rx)

        # the stub acks reliable packets from the client so that its sends complete (plain simulator behaviour)
        def sim_auto_ack(rec):
            p = rec.get("parsed")
            if p is not None and p.flags & L.RELIABLE:
                sim.send(L.build_datagram(0, sim.alloc_pid(), 0, L.packet_ack_body([p.pid])))
        sim.rx_hooks.append(sim_auto_ack)

        ops = {"request": op_request, "chunk": op_chunk, "foreign": op_foreign, "info": op_info, "upload": op_upload}
        for i, st in enumerate(plan["steps"]):
            def _run(i=i, st=st):
                env.tr("step", i, st["op"], st.get("i"))
                env.ab(st["op"], st.get("i"), bool(st.get("reliable")))
                ops[st["op"]](st)
            loop.call_at(st["at"], _run)
        end = (plan["steps"][-1]["at"] if plan["steps"] else 0) + cfg["tail"]
        why = loop.run_sim(until=end, max_iterations=400_000)
        if why == "cap":
            res.violate("HARNESS/iteration-cap")

        # ---- end-of-run checks --------------------------------------------------------------------------------
        if not stopped and kind != "upload" and state["obj"] is not None and not state.get("ambiguous"):
            obj = state["obj"]
            model_complete = state["eof"] is not None and all(k in state["have"] for k in range(state["eof"] + 1))
            if state["failed_expected"] or not model_complete:
                # a 5 s silence must fail the transfer rather than complete it
                if successful(obj) and not model_complete:
                    violate("C20/complete/early", xkind=kind, have=sorted(state["have"]), eof=state["eof"], reason="end")
                elif failed(obj):
                    res.probe("timed_out")
            if not stopped:
                sk = obj.size_known
                # (a TransferInfo that only arrives after the transfer completed is not judged)
                first_seen = (0 in state["have"]) if kind == "xfer" else state["info_seen"]
                if first_seen and not state["failed_expected"]:
                    if not sk.done() or sk.cancelled() or sk.exception() is not None or sk.result() != len(payload):
                        violate("C20/size-known/wrong", xkind=kind, done=sk.done(),
                                value=(sk.result() if sk.done() and not sk.cancelled() and sk.exception() is None else None),
                                want=len(payload))
                    else:
                        res.probe("size_known_resolved")
        if not stopped and kind == "upload":
            fut = up["fut"]
            stub_data = b"".join(up["chunks"][k] for k in sorted(up["chunks"]))
            stub_complete = up["eof"] is not None and all(k in up["chunks"] for k in range(up["eof"] + 1))
            faulty = bool(cfg.get("sys_faults")) or any(cfg["confirm_fate"].values())
            if fut.done() and not fut.cancelled() and fut.exception() is None:
                if not stub_complete or stub_data[4:] != payload or struct.unpack("<i", stub_data[:4])[0] != len(payload):
                    violate("C20/upload/reported-success-but-wrong-data", got_len=len(stub_data), want_len=len(payload) + 4)
                elif fut.result() != up["asset_id"]:
                    violate("C20/upload/wrong-asset-id")
                else:
                    res.probe("upload_completed")
            else:
                if not faulty:
                    violate("C20/upload/failed-without-faults", done=fut.done(),
                            exc=repr(fut.exception())[:120] if fut.done() and not fut.cancelled() else None)
                else:
                    res.probe("upload_failed_under_faults")
                if stub_complete and stub_data[4:] != payload:
                    violate("C20/upload/wrong-data", got_len=len(stub_data))
        if not stopped:
            for ctx in loop.loop_exceptions:
                exc = ctx.get("exception")
                if exc is not None and not isinstance(exc, (TimeoutError, asyncio.CancelledError, ConnectionAbortedError)):
                    violate("C20/loop-exception", exc=repr(exc)[:200], msg=str(ctx.get("message"))[:160])
                    break
        for k_, n_ in env.net.fault_counts.items():
            if k_ in ("delay", "dup", "drop"):
                res.fault(k_, n_)
        res.sim_time = loop.time()
        res.steps = len(plan["steps"])
        for a in world.arrivals:
            env.tr("arr", round(a.t, 4), a.raw)
            env.ab("A", a.parsed.msg_key if a.parsed else None)
        res.digest = env.digest()
        res.abstract = env.abstract_digest()
        world.shutdown()
    return res

"""C16 - capability URLs are attributed to the right cap, region and session.

HTTP world, 1-2 sessions x 1-3 regions.  Seed requests / responses travel through the real
``_handle_request`` / ``_handle_response`` Seed branches (repeated grants, overlapping names, re-granted
and prefix-related URLs, asset caps shared by everybody); addon actors call ``register_proxy_cap``
(once and twice) and ``register_cap(TEMPORARY)``; uploader responses create temporary caps through the
real path; lookups are made by sending requests and reading the cap metadata that comes back across
the process boundary, plus ``cap_urls`` / ``caps`` by name.  Everything is interleaved by the scheduler
and the two queues have random latency.
"""
from __future__ import annotations

import logging
import random
from typing import Dict, List, Optional

from hsim.core.env import SimEnv
from hsim.core.runner import RunResult
from hsim.props.c15 import region_specs
from hsim.worlds.http import FlowRecord, HttpWorld

PROPERTY = "C16"
CHUNK = {"quick": 10, "thorough": 24}
PROBES = ["lookup_by_older_wrapper_url", "two_sessions_in_one_simulator", "older_url_granted_again", "regrant_same_name", "prefix_related_urls", "lookup_extends_several", "lookup_unknown", "temporary_second_lookup",
          "temporary_via_uploader", "proxy_cap_registered_twice", "proxy_cap_in_seed", "wrapper_resolved",
          "asset_cap_unattributed", "two_sessions", "seed_twice_same_region", "lookup_older_grant", "by_name_most_recent",
          "by_name_after_one_shot_consumed_among_several",
          "seed_interleaved_with_lookup"]
COMPONENTS = {
    "real": ["ProxiedRegion.update_caps / _recalc_caps / register_cap / register_wrapper_cap / register_proxy_cap / "
             "resolve_cap, CapsMultiDict", "Session.resolve_cap, SessionManager.resolve_cap",
             "MITMProxyEventManager._handle_request / _handle_response (Seed, uploader, wrapper branches)",
             "CapData.serialize / deserialize, HippoHTTPFlow state transfer", "SLMITMAddon hooks + callback pump"],
    "stub": ["viewer HTTP client", "simulator origin (grants)", "addon actors calling the registration API",
             "mitmproxy core (hook order)", "queues"],
}
ASSUMPTIONS = [
    "a URL extending several granted URLs (prefix-related grants) may resolve to any one of them",
    "asset-server caps that are not wrappers resolve to name and URL only (documented exception)",
    "capability names granted by the simulator and names registered proxy-only are disjoint",
]

NORMAL_NAMES = ["FetchInventory2", "GetMetadata", "UpdateScriptAgent", "NewFileAgentInventory", "RenderMaterials",
                "SimulatorFeatures"]
ASSET_NAMES = ["ViewerAsset", "GetTexture", "GetMesh2"]
PROXY_NAMES = ["ViewerStartAuction", "HippoLocalAsset", "DispatchRegionInfo"]


def gen_plan(rng: random.Random, tier: str) -> dict:
    big = tier == "thorough"
    n_sessions = 1 if rng.random() < 0.55 else 2
    cfg = {
        "n_sessions": n_sessions,
        "n_regions": [rng.randint(1, 3) for _ in range(n_sessions)],
        "queue_latency": rng.choice([0.0, 0.003, 0.02]),
        "latency_seed": rng.randrange(1 << 30),
        "shared_sims": rng.random() < 0.5,
        "slash_seeds": rng.random() < 0.2,
        "tail": 0.5,
    }
    n = rng.randint(3, 30 if big else 16)
    # some runs keep several one-shot caps of one kind in flight at once (uploads started back to back)
    asset_heavy = rng.random() < 0.2      # the asset service keeps moving while fetches are under way
    temp_heavy = rng.random() < 0.3
    temp_name = rng.choice(["NewFileAgentInventory", "UpdateScriptAgent"])
    hot = (0, rng.randrange(cfg["n_regions"][0]))
    steps = []
    t = 0.01
    url_counter = [0]
    granted: List[dict] = []   # what the generator has handed out so far (for choosing lookups)

    def fresh_url(s, r, name, prefix_of: Optional[str] = None):
        url_counter[0] += 1
        if prefix_of is not None:
            return prefix_of + f"{url_counter[0]:02d}"
        return f"https://sim{s}-{r}.example.invalid:12043/cap/{url_counter[0]:04d}ab"

    for _ in range(n):
        t = round(t + rng.choice([0.0, 0.0, 0.002, 0.01, 0.05]), 4)
        s = rng.randrange(n_sessions)
        r = rng.randrange(cfg["n_regions"][s])
        x = rng.random()
        if temp_heavy and rng.random() < 0.75:
            x = rng.choice([0.45, 0.45, 0.55, 0.9])
            if rng.random() < 0.85:
                s, r = hot
        if x < 0.3:
            names = rng.sample(NORMAL_NAMES, rng.randint(1, 4))
            if rng.random() < (1.0 if asset_heavy else 0.6):
                names += rng.sample(ASSET_NAMES, rng.randint(1, 2))
            req_names = list(names)
            if rng.random() < 0.5:
                req_names += rng.sample(PROXY_NAMES, rng.randint(1, 2))
            if rng.random() < 0.12:
                # a viewer (or a script driving one) may list a name more than once
                req_names.append(rng.choice(req_names))
            rng.shuffle(req_names)
            grant = {}
            for nm in names:
                if rng.random() < 0.1:
                    continue   # the simulator does not grant everything it is asked for
                mine = [g["url"] for g in granted if (g["s"], g["r"], g["name"]) == (s, r, nm)]
                if nm not in ASSET_NAMES and len(set(mine)) >= 2 and rng.random() < 0.35:
                    # the simulator hands out, again, a URL it had granted for this very name before
                    older = [u for u in mine if u != mine[-1]]
                    grant[nm] = rng.choice(older)
                    granted.append({"s": s, "r": r, "name": nm, "url": grant[nm]})
                    continue
                if nm in ASSET_NAMES:
                    # identical for everybody; now and then the grid moves the asset service to another path
                    grant[nm] = f"http://asset-cdn.example.invalid/{rng.choice(['', 'v2/', 'v3/'] if asset_heavy else ['', '', '', '', 'v2/'])}{nm.lower()}"
                elif granted and rng.random() < 0.12:
                    g = rng.choice(granted)
                    grant[nm] = fresh_url(s, r, nm, prefix_of=g["url"])           # prefix-related
                elif granted and rng.random() < 0.08:
                    grant[nm] = rng.choice(granted)["url"]                          # very same URL handed out again
                else:
                    grant[nm] = fresh_url(s, r, nm)
                granted.append({"s": s, "r": r, "name": nm, "url": grant[nm]})
            steps.append({"at": t, "op": "seed", "s": s, "r": r, "names": req_names, "grant": grant,
                          "origin_delay": rng.choice([0.0, 0.0, 0.02])})
        elif x < 0.315:
            # the region's circuit goes away (DisableSimulator / CloseCircuit): what was granted stays granted - late
            # requests and the addons' own lookups still refer to it
            steps.append({"at": t, "op": "teardown", "s": s, "r": r})
        elif x < 0.4:
            steps.append({"at": t, "op": "proxy_cap", "s": s, "r": r, "name": rng.choice(PROXY_NAMES),
                          "times": rng.choice([1, 2, 2, 3])})
        elif x < 0.48:
            url = fresh_url(s, r, "tmp")
            tname = temp_name if temp_heavy and rng.random() < 0.8 else \
                rng.choice(["NewFileAgentInventory", "UpdateScriptAgent"])
            steps.append({"at": t, "op": "temp", "s": s, "r": r, "via": rng.choice(["uploader", "direct", "direct", "direct"] if temp_heavy else ["uploader", "direct"]),
                          "url": url, "name": tname})
            granted.append({"s": s, "r": r, "name": "tmp", "url": url, "tname": tname + "Uploader"})
        elif x < 0.60:
            known = [g["name"] for g in granted if (g["s"], g["r"]) == (s, r) and g["name"] != "tmp"]
            temps = [g["tname"] for g in granted if (g["s"], g["r"]) == (s, r) and g["name"] == "tmp"]
            pool = known if known and rng.random() < 0.7 else NORMAL_NAMES + ASSET_NAMES + PROXY_NAMES
            if temps and rng.random() < (0.7 if temp_heavy else 0.2):
                pool = temps
            steps.append({"at": t, "op": "byname", "s": s, "r": r, "name": rng.choice(pool)})
        else:
            y = rng.random()
            if asset_heavy and rng.random() < 0.5:
                y = 0.9
            if y < 0.7 and granted:
                g = rng.choice(granted)
                tg = [h for h in granted if h["name"] == "tmp"]
                if temp_heavy and tg and rng.random() < 0.6:
                    g = rng.choice(tg)
                url = g["url"] + rng.choice(["", "/", "/sub/path", "?x=1", "/" + "z" * 5])
            elif y < 0.85:
                url = f"https://nowhere.example.invalid/cap/{rng.randrange(10 ** 6)}"
            else:
                url = "wrapper"
            steps.append({"at": t, "op": "lookup", "s": s, "r": r, "url": url, "asset": rng.choice(ASSET_NAMES),
                          "which": rng.randrange(8)})
    return {"property": PROPERTY, "cfg": cfg, "steps": steps}


def simplify_step(step):
    if step["op"] == "seed":
        for nm in list(step["grant"]):
            g = dict(step["grant"])
            del g[nm]
            yield {**step, "grant": g, "names": [x for x in step["names"] if x != nm]}
        for nm in step["names"]:
            if nm not in step["grant"]:
                yield {**step, "names": [x for x in step["names"] if x != nm]}
        if step.get("origin_delay"):
            yield {**step, "origin_delay": 0.0}
    if step["op"] == "proxy_cap" and step["times"] > 1:
        yield {**step, "times": step["times"] - 1}


def simplify_plan(plan):
    cfg = plan["cfg"]
    if cfg["queue_latency"]:
        yield {**plan, "cfg": {**cfg, "queue_latency": 0.0}}
    if cfg.get("slash_seeds"):
        yield {**plan, "cfg": {**cfg, "slash_seeds": False}}


def run_plan(plan: dict) -> RunResult:
    import mitmproxy.http
    from hippolyzer.lib.base import llsd
    from hippolyzer.lib.proxy.caps import CapType

    res = RunResult()
    cfg = plan["cfg"]
    stopped = []

    def violate(kind, /, **d):
        if not stopped:
            res.violate(kind, **d)
            stopped.append(1)

    consumed_once = set()
    consumed_names = set()
    with SimEnv(plan.get("seed", 0), log_level=logging.CRITICAL) as env:
        loop = env.loop
        world = HttpWorld(env, cfg)
        sessions = []
        specs_by = {}
        for s in range(cfg["n_sessions"]):
            specs = region_specs(s, cfg["n_regions"][s], cfg.get("shared_sims", False))
            if cfg.get("slash_seeds"):
                # grids whose seed capability URLs end in a slash (OpenSim style: .../CAPS/<uuid>/)
                for sp_ in specs:
                    sp_["seed"] = sp_["seed"] + "/"
            specs_by[s] = specs
            sessions.append(world.login(s, specs))
        if cfg["n_sessions"] > 1:
            res.probe("two_sessions")
            if cfg.get("shared_sims"):
                res.probe("two_sessions_in_one_simulator")
        if cfg["queue_latency"]:
            res.fault("queue_latency")
        world.start()

        def region_obj(s, r):
            return sessions[s].regions[r]

        def ident(s, r):
            return str(sessions[s].id), str(specs_by[s][r]["addr"])

        def origin(rec: FlowRecord, request):
            st = rec.spec["st"]
            if st["op"] == "seed":
                return mitmproxy.http.Response.make(200, llsd.format_xml(dict(st["grant"])),
                                                    {"Content-Type": "application/llsd+xml"})
            if st["op"] == "temp":
                return mitmproxy.http.Response.make(200, llsd.format_xml({"state": "upload", "uploader": st["url"]}),
                                                    {"Content-Type": "application/llsd+xml"})
            return mitmproxy.http.Response.make(200, b"<llsd><map /></llsd>", {"Content-Type": "application/llsd+xml"})
        world.origin = origin
        rec_of_step: Dict[int, FlowRecord] = {}

        # ---- ops: act on the system, note direct API calls in the main-side log -------------------------------
        def op_seed(i, st):
            rec_of_step[i] = world.request({"method": "POST", "url": specs_by[st["s"]][st["r"]]["seed"],
                                            "content": llsd.format_xml(list(st["names"])),
                                            "headers": {"Content-Type": "application/llsd+xml"}, "st": st,
                                            "origin_delay": st.get("origin_delay", 0.0)})

        def op_proxy_cap(i, st):
            region = region_obj(st["s"], st["r"])
            urls = []
            for _ in range(st["times"]):
                try:
                    urls.append(region.register_proxy_cap(st["name"]))
                except Exception as e:
                    return violate("C16/proxy-cap/raised", exc=repr(e)[:120])
            world.main_log.append({"what": "proxy_cap", "t": loop.time(), "st": st, "urls": urls})

        def op_temp(i, st):
            region = region_obj(st["s"], st["r"])
            if st["via"] == "direct":
                region.register_cap(st["name"] + "Uploader", st["url"], CapType.TEMPORARY)
                world.main_log.append({"what": "temp_direct", "t": loop.time(), "st": st})
                return
            base = region.cap_urls.get(st["name"])
            if base is None:
                return
            res.probe("temporary_via_uploader")
            rec_of_step[i] = world.request({"method": "POST", "url": base, "content": llsd.format_xml({"x": 1}),
                                            "headers": {}, "st": st})

        def op_byname(i, st):
            region = region_obj(st["s"], st["r"])
            got_cap = region.caps.get(st["name"])
            world.main_log.append({"what": "byname", "t": loop.time(), "st": st, "url": region.cap_urls.get(st["name"]),
                                   "cap": (got_cap[0].name, got_cap[1]) if got_cap is not None else None})

        def op_lookup(i, st):
            url = st["url"]
            if url == "wrapper":
                # any wrapper URL the viewer was ever handed for this region (a fetch started under an older grant
                # may still be on its way), not only the newest
                handed = []
                for j, rec_ in sorted(rec_of_step.items()):
                    st_j = plan["steps"][j]
                    if st_j["op"] == "seed" and (st_j["s"], st_j["r"]) == (st["s"], st["r"]) and rec_.result is not None:
                        try:
                            w_ = llsd.parse_xml(rec_.result["content"]).get(st["asset"])
                        except Exception:
                            w_ = None
                        if isinstance(w_, str) and w_ not in handed:
                            handed.append(w_)
                if not handed:
                    return
                w = handed[st.get("which", 0) % len(handed)]
                if len(handed) > 1:
                    res.probe("several_wrapper_urls_handed_out")
                    if w != handed[-1]:
                        res.probe("lookup_by_older_wrapper_url")
                url = w + "/?texture_id=1"
            rec_of_step[i] = world.request({"method": "GET", "url": url, "headers": {}, "st": st})

        def op_teardown(i, st):
            res.fault("region_teardown")
            region_obj(st["s"], st["r"]).mark_dead()
            torn.add((st["s"], st["r"]))

        torn = set()
        ops = {"teardown": op_teardown, "seed": op_seed, "proxy_cap": op_proxy_cap, "temp": op_temp, "byname": op_byname, "lookup": op_lookup}
        for i, st in enumerate(plan["steps"]):
            def _run(i=i, st=st):
                env.tr("step", i, st["op"])
                env.ab(st["op"], st.get("s"), st.get("r"))
                if not stopped:
                    ops[st["op"]](i, st)
            loop.call_at(st["at"], _run)
        end = (plan["steps"][-1]["at"] if plan["steps"] else 0) + cfg["tail"]
        why = loop.run_sim(until=end, max_iterations=600_000)
        if why == "cap":
            res.violate("HARNESS/iteration-cap")
        for rec in world.flows:
            if rec.error and rec.error != "cancelled" and not stopped:
                violate("HARNESS/core-stub-error", err=rec.error)

        # ---- replay the reference grant model over what the main process did, in the order it did it ---------
        grants: List[dict] = []
        seq = [0]

        def grant(s, r, name, url, typ):
            seq[0] += 1
            grants.append({"s": s, "r": r, "name": name, "url": url, "type": typ, "seq": seq[0]})

        for s in range(cfg["n_sessions"]):
            for r, sp in enumerate(specs_by[s]):
                grant(s, r, "Seed", sp["seed"], "NORMAL")
        by_id = {rec.id: rec for rec in world.flows if rec.id}

        def matching(url):
            return [g for g in grants if url.startswith(g["url"])]

        def check_attribution(rec, url, candidates, why_):
            ser = rec.result["metadata"].get("cap_data_ser") if rec.result else None
            got = {"cap_name": getattr(ser, "cap_name", None), "region_addr": getattr(ser, "region_addr", None),
                   "session_id": getattr(ser, "session_id", None), "base_url": getattr(ser, "base_url", None),
                   "type": getattr(ser, "type", None)}
            if not candidates:
                if got["cap_name"] or got["session_id"]:
                    return violate("C16/lookup/attributed-although-unknown", url=url, got=got, why=why_)
                res.probe("lookup_unknown")
                return None
            if len({(c["s"], c["r"], c["name"], c["url"]) for c in candidates}) > 1:
                res.probe("lookup_extends_several")
            for g in candidates:
                sid, raddr = ident(g["s"], g["r"])
                asset_plain = g["name"].startswith(("GetMesh", "GetTexture", "ViewerAsset")) and g["type"] != "WRAPPER"
                want = {"cap_name": g["name"], "base_url": g["url"], "type": g["type"],
                        "region_addr": None if asset_plain else raddr, "session_id": None if asset_plain else sid}
                if got == want:
                    if asset_plain:
                        res.probe("asset_cap_unattributed")
                    if g["type"] == "WRAPPER":
                        res.probe("wrapper_resolved")
                    if any((h["s"], h["r"], h["name"]) == (g["s"], g["r"], g["name"]) and h["seq"] > g["seq"] for h in grants):
                        res.probe("lookup_older_grant")
                    return g
            kind = "C16/lookup/wrong-attribution" if got["cap_name"] else "C16/lookup/not-resolved"
            violate(kind, url=url, got=got, why=why_,
                    candidates=[{k: c[k] for k in ("s", "r", "name", "url", "type")} for c in candidates][:4])
            return None

        resolved_region: Dict[str, Optional[dict]] = {}
        open_seeds = set()
        seeds_seen: Dict[tuple, int] = {}
        for entry in world.main_log:
            if stopped:
                break
            what = entry["what"]
            if what == "proxy_cap":
                st = entry["st"]
                existing = [g["url"] for g in grants if (g["s"], g["r"], g["name"]) == (st["s"], st["r"], st["name"])
                            and g["type"] == "PROXY_ONLY"]
                if st["times"] > 1 or existing:
                    res.probe("proxy_cap_registered_twice")
                all_urls = existing + entry["urls"]
                if len(set(all_urls)) != 1:
                    violate("C16/proxy-cap/not-idempotent", name=st["name"], urls=all_urls[:4])
                    break
                if not existing:
                    grant(st["s"], st["r"], st["name"], entry["urls"][0], "PROXY_ONLY")
            elif what == "temp_direct":
                st = entry["st"]
                grant(st["s"], st["r"], st["name"] + "Uploader", st["url"], "TEMPORARY")
            elif what == "byname":
                st = entry["st"]
                mine = [g for g in grants if (g["s"], g["r"], g["name"]) == (st["s"], st["r"], st["name"])]
                if not mine:
                    if entry["url"] is not None:
                        violate("C16/by-name/unknown-name-has-url", name=st["name"], got=entry["url"])
                    continue
                want = mine[-1]
                if len(mine) > 1:
                    res.probe("by_name_most_recent")
                    if (st["s"], st["r"], st["name"]) in consumed_names:
                        res.probe("by_name_after_one_shot_consumed_among_several")
                if entry["url"] != want["url"] or entry["cap"] != (want["type"], want["url"]):
                    violate("C16/by-name/not-most-recent", name=st["name"], got=entry["url"], want=want["url"],
                            all=[g["url"] for g in mine], cap=entry["cap"])
            elif what == "event":
                rec = by_id.get(entry["flow_id"])
                if rec is None:
                    continue
                st = rec.spec["st"]
                url = rec.spec["url"]
                if entry["type"] == "request":
                    if st["op"] == "seed":
                        open_seeds.add(rec.id)
                    elif open_seeds:
                        res.probe("seed_interleaved_with_lookup")
                    cands = matching(url)
                    # a temporary cap is consumed by the request that resolves to it
                    temp = [g for g in cands if g["type"] == "TEMPORARY"]
                    if rec.result is None:
                        continue
                    hit = check_attribution(rec, url, cands, st["op"])
                    resolved_region[rec.id] = hit
                    if hit is not None and hit["type"] == "TEMPORARY":
                        grants.remove(hit)
                        consumed_once.add(hit["url"])
                        consumed_names.add((hit["s"], hit["r"], hit["name"]))
                    elif not cands and url.split("?")[0].rstrip("/") in {u for u in consumed_once} | {
                            u2 for u2 in consumed_once if url.startswith(u2)}:
                        res.probe("temporary_second_lookup")
                    if st["op"] == "seed":
                        key = (st["s"], st["r"])
                        seeds_seen[key] = seeds_seen.get(key, 0) + 1
                        if seeds_seen[key] > 1:
                            res.probe("seed_twice_same_region")
                        # (f) upstream body: viewer's list minus what is proxy-only for this region right now
                        po = {g["name"] for g in grants if (g["s"], g["r"]) == key and g["type"] == "PROXY_ONLY"}
                        want_up = [n for n in st["names"] if n not in po]
                        if rec.upstream is not None:
                            try:
                                up = llsd.parse_xml(rec.upstream["content"])
                            except Exception as e:
                                violate("C16/seed/upstream-body-unparseable", exc=repr(e)[:100])
                                break
                            if up != want_up:
                                violate("C16/seed/upstream-names", got=up, want=want_up, proxy_only=sorted(po))
                                break
                        rec.spec["needed"] = [n for n in st["names"] if n in po]
                        if rec.spec["needed"]:
                            res.probe("proxy_cap_in_seed")
                else:  # response event
                    open_seeds.discard(rec.id)
                    if rec.result is None:
                        continue
                    if st["op"] == "seed":
                        s, r = st["s"], st["r"]
                        for nme, gurl in st["grant"].items():
                            if any((g["s"], g["r"], g["name"]) == (s, r, nme) for g in grants):
                                res.probe("regrant_same_name")
                            prior = [g["url"] for g in grants if (g["s"], g["r"], g["name"]) == (s, r, nme)]
                            if gurl in prior and prior[-1] != gurl:
                                res.probe("older_url_granted_again")
                            if any(gurl != g["url"] and (gurl.startswith(g["url"]) or g["url"].startswith(gurl)) for g in grants):
                                res.probe("prefix_related_urls")
                            grant(s, r, nme, gurl, "NORMAL")
                        try:
                            got = llsd.parse_xml(rec.result["content"])
                        except Exception as e:
                            violate("C16/seed/response-unparseable", exc=repr(e)[:100])
                            break
                        needed = rec.spec.get("needed", [])
                        want_keys = set(st["grant"]) | set(needed)
                        if set(got) != want_keys:
                            violate("C16/seed/response-names", got=sorted(got), want=sorted(want_keys))
                            break
                        sid, raddr = ident(s, r)
                        for nme, gurl in st["grant"].items():
                            if nme in ("GetMesh2", "GetMesh", "GetTexture", "ViewerAsset"):
                                wurl = got[nme]
                                if wurl == gurl or not isinstance(wurl, str) or not wurl.startswith("http"):
                                    violate("C16/seed/asset-cap-not-wrapped", name=nme, got=wurl)
                                    break
                                grant(s, r, nme + "ProxyWrapper", wurl, "WRAPPER")
                            elif got[nme] != gurl:
                                violate("C16/seed/granted-url-changed", name=nme, got=got[nme], want=gurl)
                                break
                        for nme in needed:
                            regs = [g["url"] for g in grants if (g["s"], g["r"], g["name"]) == (s, r, nme)
                                    and g["type"] == "PROXY_ONLY"]
                            if not stopped and got.get(nme) not in regs:
                                violate("C16/seed/proxy-cap-url", name=nme, got=got.get(nme), registered=regs)
                    elif st["op"] == "temp":
                        hit = resolved_region.get(rec.id)
                        # (with prefix-related grants the request may have resolved to another upload-creating cap)
                        if hit is not None and hit["type"] == "NORMAL" and rec.result["status"] == 200 \
                                and hit["name"] in ("NewFileAgentInventory", "UpdateScriptAgent"):
                            grant(hit["s"], hit["r"], hit["name"] + "Uploader", st["url"], "TEMPORARY")
        # wrapper URLs of different regions must be distinct (they carry the attribution)
        if not stopped:
            wr = {}
            for g in grants:
                if g["type"] == "WRAPPER":
                    wr.setdefault(g["url"], set()).add((g["s"], g["r"]))
            for url, owners in wr.items():
                if len(owners) > 1:
                    violate("C16/seed/wrapper-url-shared-between-regions", url=url, owners=sorted(owners))
                    break
        if not stopped:
            for ctx in loop.loop_exceptions:
                exc = ctx.get("exception")
                if exc is not None:
                    violate("C16/loop-exception", exc=repr(exc)[:200], msg=str(ctx.get("message"))[:160])
                    break
        res.sim_time = loop.time()
        res.steps = len(plan["steps"])
        for rec in world.flows:
            ser = rec.result["metadata"].get("cap_data_ser") if rec.result else None
            env.tr("flow", rec.spec["url"], tuple(ser) if ser else None)
            env.ab("flow", getattr(ser, "type", None), bool(ser))
        res.digest = env.digest()
        res.abstract = env.abstract_digest()
        world.shutdown()
    return res

"""C05 - proxied circuit: acknowledgements stay truthful under injection, drops, resends.

UDP proxy world, one session, 1-2 regions.  Both endpoint stubs send (un)reliable packets, ack any
subset of what they have *received* (wire IDs as they saw them) by appended acks or PacketAck,
late or twice, and retransmit.  An operator actor injects packets either way (circuit.send /
send_reliable), a scripted addon drops or takes selected packets (re-sending the taken copy later).
All four half-links lose, duplicate, delay and reorder; the virtual clock drives the real resend task.

Oracle: black box at the endpoints over the recorded wire history (DESIGN §4 C05 clauses A-E).
"""
from __future__ import annotations

import asyncio
import logging
import random
from typing import Dict, List, Optional, Tuple

from hsim.core.env import SimEnv
from hsim.core.runner import RunResult
from hsim.props.udp_common import Driver, IdLaws, WireModel, rand_fate
from hsim.stubs import lludp as L
from hsim.worlds.udp import Arrival, Emission, UdpWorld

PROPERTY = "C05"
CHUNK = {"quick": 16, "thorough": 40}
TICK = 0.1
PROBES = ["resend_after_stall", "retransmission_carrying_fresh_acks", "ack_for_older_packet_after_second_injection", "ack_piggybacked_on_dropped_packet",
          "packetack_mixing_injected_and_real", "packetack_all_injected_with_appended_acks", "budget_exhausted",
          "ack_completes_injection", "ack_same_tick_as_resend", "taken_copy_resent", "taken_copy_acked",
          "dropped_reliable_acked_to_sender", "endpoint_retransmission_forwarded", "wrong_way_ack_number_collision",
          "packetack_swallowed", "resend_emitted", "injection_lost_then_resent"]
COMPONENTS = {
    "real": ["InterceptingLLUDPProxyProtocol (datagram path + attempt_resends task)", "ProxiedCircuit.prepare_message / "
             "_rewrite_packet_ack / drop_message", "Circuit.send / send_reliable / collect_acks / resend_unacked / "
             "send_acks", "InjectionTracker", "Message.take", "AddonManager dispatch", "SOCKS5 server + UDP association"],
    "stub": ["viewer and simulator endpoints (own ID counters, ack policy, retransmission)", "network (loss, dup, "
             "delay/reorder on all four half-links)", "operator (injects)", "scripted addon (drop / take + late re-send)",
             "clock (circuit.dt seam + loop time)"],
}
ASSUMPTIONS = [
    "endpoints only acknowledge wire IDs they actually received",
    "StartPingCheck.OldestUnacked rewriting is not judged",
    "tracker window kept at production size (10000): no eviction in this world",
    "resend cadence is judged with a slack of max(0.5 s, 20 %) above the configured interval; the retry budget is read "
    "from ReliableResendInfo.tries_left",
]


def gen_plan(rng: random.Random, tier: str) -> dict:
    big = tier == "thorough"
    resend_every = rng.choice([0.3, 0.5, 1.0, 3.0])
    lossy = rng.random() < 0.6
    cfg = {
        "deferred": rng.random() < 0.8,
        "same_ip": False,
        "n_viewers": 1,
        "regions": [[0] if rng.random() < 0.7 else [0, 1]],
        "resend_every": resend_every,
        "sys_faults": ({"p_delay": rng.choice([0.0, 0.3]), "p_drop": rng.choice([0.0, 0.1, 0.3]),
                        "p_dup": rng.choice([0.0, 0.1]), "delay_scale": 0.05} if lossy else {}),
        "p_delay": rng.choice([0.0, 0.3, 0.6]) if lossy else 0.0,
        "p_dup": rng.choice([0.0, 0.1, 0.2]) if lossy else 0.0,
        "p_drop": rng.choice([0.0, 0.1, 0.25]) if lossy else 0.0,
        "tail": round(11 * (resend_every + max(0.5, 0.2 * resend_every)) + 1.0, 3),
    }
    p_inject = rng.choice([0.1, 0.2, 0.35])
    p_ack = rng.choice([0.1, 0.2, 0.35])
    p_action = rng.choice([0.0, 0.1, 0.25])
    n = rng.randint(5, 70 if big else 40)
    steps = []
    t = 0.05
    p_stall = rng.choice([0.0, 0.0, 0.04, 0.1])
    p_bad = rng.choice([0.0, 0.0, 0.15])
    for r in cfg["regions"][0]:
        steps.append({"at": t, "op": "ucc", "v": 0, "r": r})
        t = round(t + 0.01, 4)
    # make sure the simulator has heard from the viewer before it talks
    k = 0
    for _ in range(n):
        dt = rng.choice([0.0, 0.0, 0.01, 0.05, TICK, 2 * TICK, resend_every, resend_every + TICK / 2])
        t = round(t + dt, 4)
        r = rng.choice(cfg["regions"][0])
        x = rng.random()
        fate = lambda: rand_fate(rng, cfg["p_delay"], cfg["p_dup"], cfg["p_drop"])  # noqa: E731
        if rng.random() < p_stall:
            # the proxy process is blocked for a while (blocking hook, suspend/resume): nothing polls meanwhile
            dur = round(resend_every * rng.choice([0.5, 1.5, 2.5, 4.0, 7.0, 12.0]), 3)
            steps.append({"at": t, "op": "stall", "dur": dur})
            t = round(t + dur, 4)
            continue
        if x < p_inject:
            k += 1
            steps.append({"at": t, "op": "inject", "r": r, "dir": rng.choice(["out", "in"]),
                          "reliable": rng.random() < 0.6, "via": rng.choice(["send", "send_reliable"]), "tag": k})
            if rng.random() < 0.2:
                # whoever awaited the send gives up (an outer timeout cancels the future) while the packet is unacked
                steps[-1]["abandon_after"] = rng.choice([0.0, 0.05, round(resend_every * 1.5, 3)])
            if rng.random() < p_bad:
                # somebody asks the circuit to send something that cannot be encoded
                steps.append({"at": t, "op": "badsend", "v": 0, "r": r, "dir": rng.choice(["out", "in"]),
                              "reliable": rng.random() < 0.7})
        elif x < p_inject + p_ack:
            who = rng.choice(["vack", "sack"])
            steps.append({"at": t, "op": who, "v": 0, "r": r, "n": rng.randint(1, 4), "acks": rng.choice([0, 0, 1, 2]),
                          "reack": rng.random() < 0.15, "fate": fate()})
        elif x < p_inject + p_ack + 0.06:
            steps.append({"at": t, "op": rng.choice(["vsend", "ssend"]), "v": 0, "r": r, "name": "x", "mseed": 0,
                          "retransmit_of": rng.randrange(50), "fate": fate(),
                          "acks": rng.choice([0, 0, 1, 2]), "reack": rng.random() < 0.1})
        else:
            k += 1
            inbound = rng.random() < 0.5
            st = {"at": t, "op": "ssend" if inbound else "vsend", "v": 0, "r": r,
                  "name": "ChatFromSimulator" if inbound else "ChatFromViewer", "text": f"t{k}",
                  "mseed": rng.randrange(1 << 30), "reliable": rng.random() < 0.5, "zerocoded": rng.random() < 0.3,
                  "fate": fate()}
            if rng.random() < 0.35:
                st["acks"] = rng.randint(1, 3)
                st["reack"] = rng.random() < 0.1
            if rng.random() < p_action:
                st["action"] = rng.choice(["drop", "take", "take_later"])
                if st["action"] == "take_later":
                    st["resend_after"] = rng.choice([0.0, 0.04, TICK, 0.35])
            steps.append(st)
    return {"property": PROPERTY, "cfg": cfg, "steps": steps}


def simplify_step(step):
    if step.get("op") == "stall" and step["dur"] > 0.5:
        yield {**step, "dur": round(step["dur"] / 2, 3)}
    if step.get("fate"):
        yield {**step, "fate": {}}
    for k in ("acks", "zerocoded", "reack", "action"):
        if step.get(k):
            s = dict(step)
            s.pop(k)
            yield s
    if step.get("op") == "inject" and step.get("via") == "send_reliable":
        yield {**step, "via": "send", "reliable": True}
    if step.get("op") in ("vack", "sack") and step.get("n", 1) > 1:
        yield {**step, "n": step["n"] - 1}


def simplify_plan(plan):
    cfg = plan["cfg"]
    if cfg.get("sys_faults"):
        yield {**plan, "cfg": {**cfg, "sys_faults": {}}}
    if not cfg.get("deferred"):
        yield {**plan, "cfg": {**cfg, "deferred": True}}
    if len(cfg["regions"][0]) > 1 and not any(s.get("r") == 1 for s in plan["steps"]):
        yield {**plan, "cfg": {**cfg, "regions": [[0]]}}


class Injection:
    def __init__(self, direction, far, wire, flags, body, t, future=None, source="operator"):
        self.direction = direction
        self.far = far
        self.wire = wire
        self.flags = flags
        self.body = body
        self.emit_times = [t]
        self.future: Optional[asyncio.Future] = future
        self.acked_at: Optional[float] = None
        self.source = source
        self.gave_up_seen = False


class AckOracle:
    def __init__(self, world: UdpWorld, res: RunResult, cfg: dict, actions: Dict):
        self.world = world
        self.res = res
        self.cfg = cfg
        self.actions = actions
        self.stopped = False
        self.laws = IdLaws(lambda kind, **d: None, PROPERTY)   # used as bookkeeping only
        self.injections: Dict[Tuple, Injection] = {}            # (far, dir, wire) -> Injection
        self.sent_by: Dict[Tuple, set] = {}                     # (far, "viewer"/"sim") -> IDs that endpoint sent
        self.pending_futures: List[Tuple[Injection, asyncio.Future]] = []
        self.expected_spontaneous: List[dict] = []
        self.resend_every = cfg["resend_every"]
        # the statement says "at the configured cadence": judged with a slack of a few polling ticks, so that a
        # different (legitimate) polling granularity does not alarm
        self.cadence_slack = max(0.5, 0.2 * self.resend_every)
        from hippolyzer.lib.base.message.circuit import ReliableResendInfo
        self.budget = ReliableResendInfo.__dataclass_fields__["tries_left"].default   # the declared retry budget
        world.arrival_hooks.append(self.on_arrival_done)
        world.emission_hooks.append(self.on_emission)
        world.net.taps.append(self._tap)
        self._done_before: Dict[int, bool] = {}
        self.stalls = None       # the driver's list of (start, end) of injected process stalls

    def stalled_between(self, t0: float, t1: float) -> float:
        return sum(max(0.0, min(b, t1) - max(a, t0)) for a, b in (self.stalls or []))

    def violate(self, kind, **detail):
        if not self.stopped:
            self.res.violate(kind, **detail)
            self.stopped = True

    # ------------------------------------------------------------------------------
    def viewer(self):
        return self.world.viewers[0]

    def parse_emission(self, e: Emission):
        v = self.viewer()
        if e.dst == v.addr:
            far, payload = L.socks_unwrap(e.raw)
            return "in", far, L.parse_datagram(payload)
        return "out", e.dst, L.parse_datagram(e.raw)

    def flow(self, far, direction):
        return self.laws.flow((far, direction))

    def _tap(self, kind, t, src, dst, data):
        if kind == "send":
            # an endpoint put a datagram on the wire: remember the IDs it has sent (clause A)
            v = self.viewer()
            try:
                if src == v.addr:
                    far, payload = L.socks_unwrap(data)
                    p = L.parse_datagram(payload)
                    self.sent_by.setdefault((far, "viewer"), set()).add(p.pid)
                elif src in self.world.regions:
                    p = L.parse_datagram(data)
                    self.sent_by.setdefault((src, "sim"), set()).add(p.pid)
            except Exception:
                pass
        elif kind == "deliver" and dst in self.world.assoc_owner:
            self._done_before = {id(inj): (inj.future.done() if inj.future is not None else False)
                                 for inj in self.injections.values()}

    @staticmethod
    def all_acks(p: L.Parsed) -> List[int]:
        acks = list(p.acks)
        ids = L.packet_ack_ids(p.body_plain, p.extra_len)
        if ids:
            acks.extend(ids)
        return acks

    # ------------------------------------------------------------------------------
    def on_emission(self, e: Emission):
        if self.stopped or e.cause is not None:
            return
        # spontaneous emission: must be a (re)transmission of a proxy-originated packet and carry no acks
        try:
            direction, far, p = self.parse_emission(e)
        except Exception as ex:
            return self.violate("C05/emission/unparseable", exc=repr(ex))
        self.handle_proxy_originated(e, direction, far, p, in_window=False)

    def handle_proxy_originated(self, e, direction, far, p, in_window: bool, slot_of: Optional[int] = None):
        acks = self.all_acks(p)
        if slot_of is not None and p.pid == slot_of and p.msg_key == ("Fixed", 0xFB) and not p.flags & L.RELIABLE:
            # the PacketAck that carries a dropped packet's acks goes out in that packet's ID slot
            return
        key = (far, direction, p.pid)
        inj = self.injections.get(key)
        if inj is not None:
            # a wire ID the proxy already used for a reliable packet of its own: a retransmission
            self.res.probe("resend_emitted")
            if p.body_plain != inj.body or (p.flags & ~L.RESENT) != (inj.flags & ~L.RESENT):
                return self.violate("C05/resend/changed", wire=p.pid, direction=direction)
            if inj.acked_at is not None:
                return self.violate("C05/resend/after-ack", wire=p.pid, direction=direction, acked_at=inj.acked_at,
                                    now=e.t)
            gap = e.t - inj.emit_times[-1]
            # while the process was blocked nobody could retransmit: that time is not held against the cadence's
            # upper bound (the lower bound - never sooner than the interval - always holds)
            stalled = self.stalled_between(inj.emit_times[-1], e.t)
            if stalled:
                self.res.probe("resend_after_stall")
            if gap < self.resend_every - 1e-6 or gap > self.resend_every + self.cadence_slack + stalled + 1e-6:
                return self.violate("C05/resend/cadence", wire=p.pid, gap=round(gap, 4), resend_every=self.resend_every)
            inj.emit_times.append(e.t)
            if len(inj.emit_times) > self.budget:
                return self.violate("C05/resend/over-budget", wire=p.pid, transmissions=len(inj.emit_times))
            return
        # first transmission of something the proxy originated
        if not in_window and acks and p.msg_key != ("Fixed", 0xFB):
            return self.violate("C05/acks/on-spontaneous-packet", wire=p.pid, acks=acks)
        f = self.flow(far, direction)
        f.proxy_ids.add(p.pid)
        if p.flags & L.RELIABLE:
            self.injections[key] = Injection(direction, far, p.pid, p.flags, p.body_plain, e.t, source="wire")

    # ------------------------------------------------------------------------------
    def on_arrival_done(self, a: Arrival):
        if self.stopped:
            return
        v = self.viewer()
        try:
            if a.src == v.addr:
                far, payload = L.socks_unwrap(a.raw)
                direction = "out"
            else:
                far, payload, direction = a.src, a.raw, "in"
            pin = L.parse_datagram(payload)
        except Exception:
            return
        a.meta["dir"] = direction
        if a.escaped is not None:
            return self.violate("C05/arrival/exception-escaped", exc=repr(a.escaped), direction=direction)
        region = self.world.region_obj(0, far)
        if region is None or region.circuit is None:
            return  # before the circuit exists: C06's business
        sender = "viewer" if direction == "out" else "sim"
        receiver = "sim" if direction == "out" else "viewer"
        rev_dir = "in" if direction == "out" else "out"
        rev = self.flow(far, rev_dir)
        fwd = self.flow(far, direction)
        acks_in = self.all_acks(pin)
        is_packet_ack = L.packet_ack_ids(pin.body_plain, pin.extra_len) is not None
        action = self.actions.get((direction, far, pin.pid))
        # --- expected acks toward the receiver (clause C / D)
        expected = []
        for w in acks_in:
            if w in rev.proxy_ids:
                # ack for a proxy-originated packet: consumed by the proxy (clause D) ...
                inj = self.injections.get((far, rev_dir, w))
                if inj is not None and inj.acked_at is None:
                    inj.acked_at = a.t
                    self.res.probe("ack_completes_injection")
                    if inj.emit_times and abs((a.t - inj.emit_times[-1]) - self.resend_every) <= TICK:
                        self.res.probe("ack_same_tick_as_resend")
                    if inj.source == "taken":
                        self.res.probe("taken_copy_acked")
            elif w in rev.wire_to_orig:
                expected.append(rev.wire_to_orig[w])
                if any(j > w for j in rev.proxy_ids) and sum(1 for j in rev.proxy_ids if j < w) >= 1:
                    self.res.probe("ack_for_older_packet_after_second_injection")
            else:
                # endpoint acked an ID nothing was forwarded under (e.g. garbage): pass-through value unknown
                expected.append(None)
        if is_packet_ack:
            blocks = L.packet_ack_ids(pin.body_plain, pin.extra_len)
            inj_blocks = [w for w in blocks if w in rev.proxy_ids]
            if inj_blocks and len(inj_blocks) < len(blocks):
                self.res.probe("packetack_mixing_injected_and_real")
            if blocks and len(inj_blocks) == len(blocks) and pin.acks:
                self.res.probe("packetack_all_injected_with_appended_acks")
            if blocks and len(inj_blocks) == len(blocks) and not expected:
                self.res.probe("packetack_swallowed")
        # --- classify what the proxy emitted while handling this datagram
        toward_receiver_acks: List[int] = []
        toward_sender_acks: List[int] = []
        copies = []
        for e in a.emissions:
            try:
                d_e, far_e, pe = self.parse_emission(e)
            except Exception as ex:
                return self.violate("C05/emission/unparseable", exc=repr(ex))
            if far_e != far:
                return self.violate("C05/emission/wrong-circuit", far=list(far_e), want=list(far))
            if d_e == direction:
                toward_receiver_acks.extend(self.all_acks(pe))
                is_copy = (pe.body_plain == pin.body_plain) or (is_packet_ack and pe.msg_key == pin.msg_key
                                                               and (pe.flags & L.RELIABLE) == (pin.flags & L.RELIABLE)
                                                               and action is None)
                if is_copy and action is None:
                    copies.append(pe)
                else:
                    self.handle_proxy_originated(e, d_e, far_e, pe, in_window=True, slot_of=pin.pid)
            else:
                toward_sender_acks.extend(self.all_acks(pe))
                if pe.msg_key != ("Fixed", 0xFB):
                    return self.violate("C05/emission/unexpected-toward-sender", key=list(pe.msg_key))
                self.handle_proxy_originated(e, d_e, far_e, pe, in_window=True)
            if self.stopped:
                return
        # --- clause C: conservation toward the receiver
        from hsim.props.udp_common import acks_match
        if not acks_match(expected, toward_receiver_acks):
            kind = "C05/acks/not-conserved"
            leaked = [w for w in toward_receiver_acks if w in rev.proxy_ids and w not in
                      [x for x in expected if x is not None]]
            if any(w in rev.proxy_ids for w in acks_in) and len(toward_receiver_acks) > len(expected):
                kind = "C05/acks/injected-ack-leaked"
            elif len(toward_receiver_acks) == len(expected):
                kind = "C05/acks/mistranslated"
            return self.violate(kind, direction=direction, acks_in=acks_in, expected=expected,
                                got=toward_receiver_acks, action=action, packet_ack=is_packet_ack,
                                injected_reverse=sorted(rev.proxy_ids), leaked=leaked)
        # --- clause A: everything shown to an endpoint is an ID it sent itself
        sent_r = self.sent_by.get((far, receiver), set())
        for x in toward_receiver_acks:
            if x not in sent_r:
                return self.violate("C05/acks/id-never-sent-by-endpoint", endpoint=receiver, ack=x)
        # --- acks toward the sender: exactly one for a dropped/taken reliable packet, else none
        want_sender = [pin.pid] if (action is not None and pin.flags & L.RELIABLE) else []
        if sorted(toward_sender_acks) != sorted(want_sender):
            return self.violate("C05/acks/toward-sender", direction=direction, got=toward_sender_acks, want=want_sender,
                                action=action)
        if want_sender:
            self.res.probe("dropped_reliable_acked_to_sender")
        if action is not None and acks_in and expected:
            self.res.probe("ack_piggybacked_on_dropped_packet")
        # --- the forwarded copy
        swallow = is_packet_ack and not expected and not [x for x in acks_in if x not in rev.proxy_ids]
        if swallow and acks_in:
            if copies:
                return self.violate("C05/acks/injected-ack-leaked", direction=direction, acks_in=acks_in,
                                    got=toward_receiver_acks, packet_ack=True, swallowed_expected=True)
        elif action is None:
            if len(copies) != 1:
                return self.violate("C05/forward/count", direction=direction, copies=len(copies),
                                    emissions=len(a.emissions), packet_ack=is_packet_ack)
            pout = copies[0]
            prev = fwd.orig_to_wire.get(pin.pid)
            if prev is not None:
                self.res.probe("endpoint_retransmission_forwarded")
                if prev != pout.pid:
                    return self.violate("C05/ids/unstable", orig=pin.pid, first=prev, now=pout.pid)
            else:
                if pout.pid in fwd.proxy_ids:
                    return self.violate("C05/ids/hits-proxy-id", orig=pin.pid, wire=pout.pid)
                fwd.orig_to_wire[pin.pid] = pout.pid
                fwd.wire_to_orig[pout.pid] = pin.pid
        elif copies:
            return self.violate("C05/forward/claimed-but-forwarded", direction=direction, action=action)
        # --- clause E (completion): futures flip exactly in the event that processed their ack
        for inj in self.injections.values():
            if inj.future is None:
                continue
            was = self._done_before.get(id(inj), False)
            now = inj.future.done()
            acked_now = inj.acked_at == a.t and inj.direction == rev_dir and inj.far == far and inj.wire in acks_in
            if now and not was:
                if not acked_now:
                    if inj.future.cancelled() or inj.future.exception() is not None:
                        return self.violate("C05/complete/failed-during-arrival", wire=inj.wire)
                    return self.violate("C05/complete/without-ack", wire=inj.wire, direction=inj.direction,
                                        acks_in=acks_in, arrival_direction=direction)
                if inj.future.exception() is not None:
                    return self.violate("C05/complete/ack-but-exception", wire=inj.wire)
            elif acked_now and not now:
                return self.violate("C05/complete/ack-not-signalled", wire=inj.wire, direction=inj.direction)
        # wrong-way coincidences (same number, other direction) are interesting
        for inj in self.injections.values():
            if inj.far == far and inj.direction == direction and inj.wire in acks_in and inj.acked_at is None:
                self.res.probe("wrong_way_ack_number_collision")

    # ------------------------------------------------------------------------------
    def register_operator_injection(self, direction, far, wire, flags, body, t, future):
        key = (far, direction, wire)
        inj = self.injections.get(key)
        if inj is None:
            # emission hook did not see it (unreliable) - nothing to track
            return
        inj.future = future
        inj.source = "operator"

    def final_checks(self, end_time: float):
        if self.stopped:
            return
        for inj in self.injections.values():
            n = len(inj.emit_times)
            if inj.acked_at is None:
                # never acknowledged: must have used exactly its budget and then failed
                expected_fail_by = (inj.emit_times[0] + self.budget * (self.resend_every + self.cadence_slack) + TICK
                                    + self.stalled_between(inj.emit_times[0], end_time))
                if end_time >= expected_fail_by:
                    if n != self.budget:
                        return self.violate("C05/resend/budget", wire=inj.wire, direction=inj.direction,
                                            transmissions=n, want=self.budget)
                    self.res.probe("budget_exhausted")
                    if inj.future is not None:
                        if not inj.future.done():
                            return self.violate("C05/complete/never-failed", wire=inj.wire)
                        if inj.future.cancelled() or not isinstance(inj.future.exception(), TimeoutError):
                            return self.violate("C05/complete/wrong-failure", wire=inj.wire)
            else:
                late = n == self.budget and inj.acked_at >= inj.emit_times[-1] + self.resend_every - 1e-9
                if not late and inj.future is not None and (not inj.future.done() or inj.future.cancelled()
                                                            or inj.future.exception() is not None):
                    return self.violate("C05/complete/acked-but-not-completed", wire=inj.wire)
            if n > 1 and any(b - a_ < 0 for a_, b in zip(inj.emit_times, inj.emit_times[1:])):
                return self.violate("C05/resend/time-order", wire=inj.wire)


def run_plan(plan: dict) -> RunResult:
    from hippolyzer.lib.base.message.message import Block, Message
    from hippolyzer.lib.base.message.msgtypes import PacketFlags
    from hippolyzer.lib.base.network.transport import Direction

    res = RunResult()
    cfg = plan["cfg"]
    actions: Dict[Tuple, str] = {}
    with SimEnv(plan.get("seed", 0), sys_fault_cfg=cfg.get("sys_faults") or None, log_level=logging.ERROR) as env:
        loop = env.loop
        state = {"oracle": None}

        class C05Addon:
            def handle_circuit_created(self, session, region):
                region.circuit.resend_every = cfg["resend_every"]

            def handle_lludp_message(self, session, region, message):
                d = "out" if message.direction == Direction.OUT else "in"
                act = actions.get((d, region.circuit_addr, message.packet_id))
                if act is None or message.synthetic:
                    return None
                if act[0] == "drop":
                    region.circuit.drop_message(message)
                    return True
                copy = message.take()
                delay = act[1]

                def _resend():
                    if region.circuit is None or not region.circuit.is_alive:
                        return
                    res.probe("taken_copy_resent")
                    region.circuit.send(copy)
                    orc = state["oracle"]
                    inj = orc.injections.get((region.circuit_addr, d, copy.packet_id)) if orc else None
                    if inj is not None:
                        inj.source = "taken"
                if delay is None:
                    _resend()
                else:
                    loop.call_later(delay, _resend)
                return None

        world = UdpWorld(env, cfg, addons=[C05Addon()])
        model = WireModel(world, eager=not cfg.get("deferred", True))
        spec = world.login(0, cfg["regions"][0])
        model.add_session(spec)
        viewer = world.add_viewer(0)
        viewer.session_idx = 0
        viewer.connect()
        loop.run_sim(until=0.02)
        if viewer.state != "ready":
            res.violate("HARNESS/socks-handshake")
            return res
        model.assoc(viewer)
        oracle = AckOracle(world, res, cfg, actions)
        state["oracle"] = oracle
        driver = Driver(world, model, res)
        oracle.stalls = driver.stalls

        # pre-compute drop/take actions: keyed by the endpoint's own packet id, assigned at send time
        orig_build = driver.build

        def build(st, endpoint, flow):
            dg, pid = orig_build(st, endpoint, flow)
            if st.get("action") and st.get("retransmit_of") is None:
                d = "out" if st["op"] == "vsend" else "in"
                far = driver.far(st)
                a = st["action"]
                actions[(d, far, pid)] = ("drop",) if a == "drop" else ("take", st.get("resend_after") if a == "take_later" else None)
                res.fault("addon_" + a)
            return dg, pid
        driver.build = build

        def op_inject(st):
            far = driver.far(st)
            region = world.region_obj(0, far)
            if region is None or region.circuit is None or not region.circuit.is_alive:
                return
            direction = Direction.OUT if st["dir"] == "out" else Direction.IN
            if st["dir"] == "out":
                msg = Message("ChatFromViewer",
                              Block("AgentData", AgentID=spec.session.agent_id, SessionID=spec.session.id),
                              Block("ChatData", Message=f"inj-{st['tag']}", Type=1, Channel=7), direction=direction)
            else:
                msg = Message("ChatFromSimulator",
                              Block("ChatData", FromName="proxy", SourceID=spec.session.agent_id,
                                    OwnerID=spec.session.agent_id, SourceType=1, ChatType=1, Audible=1,
                                    Position=(0.0, 0.0, 0.0), Message=f"inj-{st['tag']}"), direction=direction)
            res.fault("inject_" + st["dir"])
            fut = None
            n0 = len(world.emissions)
            if st.get("via") == "send_reliable":
                fut = region.circuit.send_reliable(msg)
            else:
                if st.get("reliable"):
                    msg.send_flags |= PacketFlags.RELIABLE
                region.circuit.send(msg)
                info = region.circuit.unacked_reliable.get((direction, msg.packet_id))
                fut = info.completed if info is not None else None
            if len(world.emissions) != n0 + 1:
                oracle.violate("C05/inject/emission-count", emitted=len(world.emissions) - n0)
                return
            if fut is not None:
                # never let an un-awaited failure reach the loop's exception handler noisily
                fut.add_done_callback(lambda f: f.exception() if not f.cancelled() else None)
                oracle.register_operator_injection(st["dir"], far, msg.packet_id, 0, b"", loop.time(), fut)
                if st.get("abandon_after") is not None:
                    key_ = (far, st["dir"], msg.packet_id)

                    def _abandon(fut=fut, key_=key_):
                        inj_ = oracle.injections.get(key_)
                        if fut.done() or inj_ is None:
                            return
                        res.fault("awaiter_gave_up")
                        fut.cancel()
                        inj_.future = None        # nobody is waiting any more: nothing is asked of the future itself
                        inj_.abandoned = True
                    loop.call_later(st["abandon_after"], _abandon)
        driver.ops["inject"] = op_inject

        driver.schedule(plan["steps"])
        end = (plan["steps"][-1]["at"] if plan["steps"] else 0) + cfg.get("tail", 2.0) + sum(
            s_["dur"] for s_ in plan["steps"] if s_["op"] == "stall")
        why = loop.run_sim(until=end, max_iterations=600_000)
        if why == "cap":
            res.violate("HARNESS/iteration-cap")
        oracle.final_checks(loop.time())
        # lost-then-resent probe
        for inj in oracle.injections.values():
            if len(inj.emit_times) > 1 and inj.acked_at is not None:
                res.probe("injection_lost_then_resent")
        for ctx in env.loop.loop_exceptions:
            exc = ctx.get("exception")
            if exc is not None and not isinstance(exc, (TimeoutError, asyncio.CancelledError)):
                res.violate("C05/loop-exception", exc=repr(exc)[:200], msg=str(ctx.get("message"))[:200])
        for k, n in env.net.fault_counts.items():
            if k in ("delay", "dup", "drop"):
                res.fault(k, n)
        res.sim_time = loop.time()
        res.steps = len(plan["steps"])
        for a in world.arrivals:
            env.tr("arr", a.src, a.raw, [(e.dst, e.raw) for e in a.emissions])
            env.ab("A", a.meta.get("dir", "?"), len(a.emissions))
        for e in world.emissions:
            if e.cause is None:
                env.tr("spont", round(e.t, 4), e.dst, e.raw)
                env.ab("S")
        res.digest = env.digest()
        res.abstract = env.abstract_digest()
    return res

"""Self-tests of the machinery itself.

  ./check selftest-determinism [--count N] [props...]
      every run seed is executed (a) in a fresh interpreter in index order, (b) in another fresh
      interpreter in reverse order (catches state leaking between runs in one worker), (c) under a
      different PYTHONHASHSEED; trace digests must be identical in (a)/(b), verdicts identical in (c)
      (digests too for worlds without str-hash dependent iteration).

  ./check selftest-mutants [props...]
      applies each patch under hsim/selftest/mutants/<prop>/*.patch (and seeded/<id>/patch.diff) to a
      scratch copy of the repo outside /repo and /verif, runs the property's quick check against it via
      VERIF_REPO and requires a VIOLATION; the scratch copy is removed afterwards.
"""
from __future__ import annotations

import glob
import json
import os
import random
import shutil
import subprocess
import sys
import tempfile
import time

VERIF_DIR = os.path.dirname(os.path.dirname(os.path.dirname(os.path.abspath(__file__))))
ALL_PROPS = ["C02", "C04", "C05", "C06", "C07", "C14", "C15", "C16", "C17", "C18", "C19", "C20"]


def digests_main(argv):
    """Internal: print {index: [digest, abstract, [violation kinds]]} for a range of run indices."""
    from hsim.core.runner import derive_seed, load_module
    prop = argv[0].upper()
    start, count = int(argv[1]), int(argv[2])
    reverse = len(argv) > 3 and argv[3] == "reverse"
    master = int(os.environ.get("VERIF_SEED") or 0)
    mod = load_module(prop)
    idxs = list(range(start, start + count))
    if reverse:
        idxs.reverse()
    out = {}
    for i in idxs:
        seed = derive_seed(master, prop, i)
        plan = mod.gen_plan(random.Random(seed), "quick")
        plan["seed"] = seed
        res = mod.run_plan(plan)
        out[str(i)] = [res.digest, res.abstract, sorted(v["kind"] for v in res.violations)]
    print("DIGESTS " + json.dumps(out, sort_keys=True))
    return 0


def _run_digests(prop, start, count, reverse=False, hashseed="0"):
    env = dict(os.environ)
    env["PYTHONHASHSEED"] = hashseed
    env["HSIM_HASHSEED"] = hashseed
    cmd = [sys.executable, "-m", "hsim", "_digests", prop, str(start), str(count)] + (["reverse"] if reverse else [])
    p = subprocess.run(cmd, cwd=VERIF_DIR, env=env, capture_output=True, text=True, timeout=1800)
    for line in p.stdout.splitlines():
        if line.startswith("DIGESTS "):
            return json.loads(line[len("DIGESTS "):])
    raise RuntimeError(f"{prop}: digest subprocess failed rc={p.returncode}\n{p.stdout[-2000:]}\n{p.stderr[-2000:]}")


def determinism(argv):
    import concurrent.futures as cf
    count = 40
    props = []
    it = iter(argv)
    for a in it:
        if a == "--count":
            count = int(next(it))
        else:
            props.append(a.upper())
    props = props or ALL_PROPS
    t0 = time.time()
    failures = []
    jobs = []
    with cf.ThreadPoolExecutor(max_workers=16) as pool:
        for prop in props:
            jobs.append((prop, "fwd", pool.submit(_run_digests, prop, 0, count, False, "0")))
            jobs.append((prop, "rev", pool.submit(_run_digests, prop, 0, count, True, "0")))
            jobs.append((prop, "hash", pool.submit(_run_digests, prop, 0, count, False, "982451653")))
        results = {}
        for prop, tag, fut in jobs:
            results[(prop, tag)] = fut.result()
    for prop in props:
        a, b, c = results[(prop, "fwd")], results[(prop, "rev")], results[(prop, "hash")]
        n_same = n_verdict = 0
        for i in a:
            if a[i] != b[i]:
                failures.append(f"{prop} run {i}: digest differs between forward and reverse execution order "
                                f"{a[i][0][:8]} vs {b[i][0][:8]}")
            else:
                n_same += 1
            if a[i][2] != c[i][2]:
                failures.append(f"{prop} run {i}: verdict differs under another PYTHONHASHSEED {a[i][2]} vs {c[i][2]}")
            else:
                n_verdict += 1
        same_hash = sum(1 for i in a if a[i][0] == c[i][0])
        print(f"{prop}: {n_same}/{len(a)} identical digests across fresh interpreters + execution orders; "
              f"{n_verdict}/{len(a)} identical verdicts ({same_hash}/{len(a)} identical digests) under another "
              f"PYTHONHASHSEED")
    for f in failures[:20]:
        print("NONDETERMINISM:", f)
    print(f"selftest-determinism: {'FAIL' if failures else 'ok'} ({len(props)} properties x {count} seeds x 3 interpreters, "
          f"{time.time() - t0:.0f}s)")
    return 1 if failures else 0


def _mutant_files(props):
    out = []
    base = os.path.join(VERIF_DIR, "hsim", "selftest", "mutants")
    for path in sorted(glob.glob(os.path.join(base, "*", "*.patch"))):
        prop = os.path.basename(os.path.dirname(path)).upper()
        if not props or prop in props:
            out.append((prop, path))
    for meta in sorted(glob.glob(os.path.join(VERIF_DIR, "seeded", "*", "meta.json"))):
        try:
            m = json.load(open(meta))
        except Exception:
            continue
        prop = m.get("property", "").upper()
        patch = os.path.join(os.path.dirname(meta), "patch.diff")
        if os.path.exists(patch) and (not props or prop in props):
            out.append((prop, patch))
    return out


def mutants(argv):
    props = [a.upper() for a in argv if not a.startswith("-")]
    budget = os.environ.get("HSIM_MUTANT_BUDGET", "40")
    repo = os.environ.get("VERIF_REPO", "/repo")
    files = _mutant_files(props)
    if not files:
        print("no mutants found")
        return 0
    survivors = []
    t0 = time.time()
    for prop, patch in files:
        scratch = tempfile.mkdtemp(prefix="hsim-mutant-", dir="/tmp")
        try:
            dst = os.path.join(scratch, "repo")
            subprocess.run(["git", "-C", repo, "worktree", "add", "-q", "--detach", dst, "HEAD"], check=True,
                           capture_output=True)
            # the worktree is HEAD: bring over uncommitted edits of the working tree too
            diff = subprocess.run(["git", "-C", repo, "diff", "HEAD"], capture_output=True, text=True).stdout
            if diff.strip():
                subprocess.run(["git", "-C", dst, "apply"], input=diff, text=True, check=True)
            ap = subprocess.run(["git", "-C", dst, "apply", patch], capture_output=True, text=True)
            if ap.returncode != 0:
                print(f"MUTANT {prop} {os.path.relpath(patch, VERIF_DIR)}: patch does not apply ({ap.stderr.strip()[:120]})")
                survivors.append((prop, patch, "does-not-apply"))
                continue
            env = dict(os.environ)
            env["VERIF_REPO"] = dst
            p = subprocess.run([os.path.join(VERIF_DIR, "check"), prop, "--tier", "quick", "--budget", budget],
                               cwd=VERIF_DIR, env=env, capture_output=True, text=True, timeout=1200)
            killed = p.returncode == 1 and "VIOLATION property=" in p.stdout
            kinds = [l.split("kind=")[1].split(" ")[0] for l in p.stdout.splitlines() if l.startswith("violation kind=")]
            print(f"MUTANT {prop} {os.path.relpath(patch, VERIF_DIR)}: {'killed ' + ','.join(kinds[:2]) if killed else 'SURVIVED rc=%d' % p.returncode}")
            if not killed:
                survivors.append((prop, patch, f"rc={p.returncode}"))
        finally:
            subprocess.run(["git", "-C", repo, "worktree", "remove", "--force", os.path.join(scratch, "repo")],
                           capture_output=True)
            shutil.rmtree(scratch, ignore_errors=True)
            subprocess.run(["git", "-C", repo, "worktree", "prune"], capture_output=True)
    print(f"selftest-mutants: {len(files) - len(survivors)}/{len(files)} killed in {time.time() - t0:.0f}s")
    return 1 if survivors else 0


def main(argv):
    if argv[0] == "selftest-determinism":
        return determinism(argv[1:])
    if argv[0] == "selftest-mutants":
        return mutants(argv[1:])
    print("unknown selftest", argv[0])
    return 2

"""Reference LLUDP framing used by the stub endpoints (independent of the repo codec).

Datagram = flags(1) | packet id (4, BE) | extra len (1) | BODY | [acks (4, BE each, newest first) | n acks (1)]
BODY     = msgnum | extra | blocks, zero-coded as a whole when ZEROCODED is set.
"""
from __future__ import annotations

import socket
import struct
from typing import List, Optional, Tuple

ZEROCODED = 0x80
RELIABLE = 0x40
RESENT = 0x20
ACK = 0x10


def zero_encode_ref(data: bytes) -> bytes:
    """Canonical encoder: greedy runs, split at 255, never the wrap-around form."""
    out = bytearray()
    i = 0
    n = len(data)
    while i < n:
        if data[i] == 0:
            j = i
            while j < n and data[j] == 0 and j - i < 255:
                j += 1
            out.append(0)
            out.append(j - i)
            i = j
        else:
            out.append(data[i])
            i += 1
    return bytes(out)


def zero_decode_ref(data: bytes) -> bytes:
    """Reference semantics incl. wrap-around runs (00 00 n => 256+n... ) and a trailing lone zero."""
    out = bytearray()
    i = 0
    n = len(data)
    while i < n:
        c = data[i]
        if c != 0:
            out.append(c)
            i += 1
            continue
        # a zero byte starts a run; consecutive zero bytes each add 256 (255 + the one written)
        i += 1
        count = 0
        wraps = 0
        while i < n and data[i] == 0:
            wraps += 1
            i += 1
        if i < n:
            count = data[i]
            i += 1
            out.extend(b"\x00" * (wraps * 256 + count))
        else:
            # trailing lone zero(s): each stands for itself
            out.extend(b"\x00" * (1 + wraps * 256)) if wraps else out.append(0)
    return bytes(out)


def zero_encode_noncanonical(data: bytes, style: int = 0) -> bytes:
    """Same bytes after decoding, but not the canonical coding: runs are split in two
    (style 0) or a run >= 256 uses the wrap-around form (style 1, falls back to style 0)."""
    out = bytearray()
    i = 0
    n = len(data)
    changed = False
    while i < n:
        if data[i] == 0:
            j = i
            while j < n and data[j] == 0:
                j += 1
            run = j - i
            i = j
            if style == 1 and 256 <= run <= 511:
                out += bytes([0, 0, run - 256]) if run > 256 else bytes([0, 0, 0])[:2] + b""
                if run == 256:
                    # 00 00 followed by a non-zero byte would be read as a count: emit 00 FF 00 01 instead
                    del out[-2:]
                    out += bytes([0, 255, 0, 1])
                else:
                    changed = True
                continue
            while run > 255:
                out += bytes([0, 255])
                run -= 255
            if run >= 2 and not changed:
                out += bytes([0, 1, 0, run - 1])
                changed = True
            elif run:
                out += bytes([0, run])
        else:
            out.append(data[i])
            i += 1
    return bytes(out)


def is_canonical_zero_coding(coded: bytes) -> bool:
    try:
        return zero_encode_ref(zero_decode_ref(coded)) == coded
    except Exception:
        return False


def build_datagram(flags: int, pid: int, extra_len: int, body_plain: bytes, acks=(),
                   coded_body: Optional[bytes] = None) -> bytes:
    """body_plain = msgnum + extra + blocks (not zero-coded). flags' ZEROCODED/ACK bits are honoured
    (ACK is set iff acks)."""
    if acks:
        flags |= ACK
    else:
        flags &= ~ACK
    out = bytearray()
    out.append(flags & 0xFF)
    out += struct.pack("!I", pid)
    out.append(extra_len)
    if flags & ZEROCODED:
        out += coded_body if coded_body is not None else zero_encode_ref(body_plain)
    else:
        out += body_plain
    if acks:
        for a in reversed(list(acks)):
            out += struct.pack("!I", a)
        out.append(len(acks))
    return bytes(out)


class Parsed:
    __slots__ = ("flags", "pid", "extra_len", "body_raw", "body_plain", "acks", "msg_key")

    def __repr__(self):
        return (f"<pkt flags={self.flags:#x} pid={self.pid} acks={self.acks} key={self.msg_key} "
                f"body={self.body_plain[:24].hex()}..>")


def parse_datagram(data: bytes) -> Parsed:
    p = Parsed()
    if len(data) < 7:
        raise ValueError("short datagram")
    p.flags = data[0]
    p.pid = struct.unpack("!I", data[1:5])[0]
    p.extra_len = data[5]
    end = len(data)
    acks: List[int] = []
    if p.flags & ACK:
        n = data[-1]
        end -= 1 + 4 * n
        if end <= 6:
            raise ValueError("bad acks")
        for k in range(n):
            off = end + 4 * k
            acks.insert(0, struct.unpack("!I", data[off:off + 4])[0])
    p.acks = tuple(acks)
    p.body_raw = data[6:end]
    p.body_plain = zero_decode_ref(p.body_raw) if p.flags & ZEROCODED else p.body_raw
    p.msg_key = msg_key(p.body_plain)
    return p


def msg_key(body_plain: bytes) -> Tuple[str, int]:
    b = body_plain
    if len(b) >= 1 and b[0] != 0xFF:
        return ("High", b[0])
    if len(b) >= 2 and b[1] != 0xFF:
        return ("Medium", b[1])
    if len(b) >= 4 and b[2] != 0xFF:
        return ("Low", struct.unpack("!H", b[2:4])[0])
    if len(b) >= 4:
        return ("Fixed", b[3])
    return ("?", -1)


def msgnum_len(body_plain: bytes) -> int:
    k = msg_key(body_plain)[0]
    return {"High": 1, "Medium": 2, "Low": 4, "Fixed": 4}.get(k, 1)


# PacketAck is Fixed 0xFFFFFFFB: blocks = count(1) + ID (U32 LE) each
PACKET_ACK_NUM = b"\xff\xff\xff\xfb"


def packet_ack_body(ids) -> bytes:
    out = bytearray(PACKET_ACK_NUM)
    out.append(len(ids))
    for i in ids:
        out += struct.pack("<I", i)
    return bytes(out)


def packet_ack_ids(body_plain: bytes, extra_len: int = 0) -> Optional[List[int]]:
    if not body_plain.startswith(PACKET_ACK_NUM):
        return None
    b = body_plain[4 + extra_len:]
    if not b:
        return []
    n = b[0]
    return [struct.unpack("<I", b[1 + 4 * k:5 + 4 * k])[0] for k in range(n) if 5 + 4 * k <= len(b)]


# ---- SOCKS5 UDP framing (RFC 1928 §7) ------------------------------------------------------
def socks_wrap(addr: Tuple[str, int], payload: bytes) -> bytes:
    return b"\x00\x00" + b"\x00" + b"\x01" + socket.inet_aton(addr[0]) + struct.pack("!H", addr[1]) + payload


def socks_unwrap(data: bytes):
    if len(data) < 10 or data[0:2] != b"\x00\x00" or data[2] != 0 or data[3] != 1:
        raise ValueError("not an IPv4 SOCKS5 UDP datagram")
    addr = (socket.inet_ntoa(data[4:8]), struct.unpack("!H", data[8:10])[0])
    return addr, data[10:]

"""Batch runner: seeded search over plans, shrink, replay files, evidence, known findings.

Exit codes: 0 = held on everything explored, 1 = VIOLATION (line printed), 2 = harness error.
"""
from __future__ import annotations

import argparse
import concurrent.futures as cf
import faulthandler
import hashlib
import importlib
import json
import multiprocessing
import os
import random
import subprocess
import sys
import time
import traceback
from typing import Any, Dict, List, Optional

VERIF_DIR = os.path.dirname(os.path.dirname(os.path.dirname(os.path.abspath(__file__))))
KNOWN_FINDINGS = os.path.join(VERIF_DIR, "known_findings.json")
EVIDENCE_DIR = os.path.join(VERIF_DIR, "evidence")
REPLAY_DIR = os.path.join(VERIF_DIR, "out", "replays")

DEFAULT_BUDGET = {"quick": 40.0, "thorough": 1200.0}
DISTINCT_CAP = 3_000_000


def derive_seed(master: int, prop: str, index: int) -> int:
    h = hashlib.blake2b(f"{master}/{prop}/{index}".encode(), digest_size=8).digest()
    return int.from_bytes(h, "big") >> 1


def load_module(prop: str):
    return importlib.import_module(f"hsim.props.{prop.lower()}")


class RunResult:
    __slots__ = ("violations", "digest", "abstract", "faults", "probes", "sim_time", "steps", "extra")

    def __init__(self):
        self.violations: List[Dict[str, Any]] = []
        self.digest = ""
        self.abstract = ""
        self.faults: Dict[str, int] = {}
        self.probes: Dict[str, int] = {}
        self.sim_time = 0.0
        self.steps = 0
        self.extra: Dict[str, Any] = {}

    def violate(self, kind: str, /, **detail):
        self.violations.append({"kind": kind, "detail": detail})

    def probe(self, name: str, n: int = 1):
        self.probes[name] = self.probes.get(name, 0) + n

    def fault(self, name: str, n: int = 1):
        self.faults[name] = self.faults.get(name, 0) + n


# ----------------------------------------------------------------------------------------
# known findings
# ----------------------------------------------------------------------------------------
def load_known(prop: str):
    try:
        with open(KNOWN_FINDINGS) as f:
            data = json.load(f)
    except FileNotFoundError:
        return []
    return [e for e in data.get("findings", []) if e.get("property") == prop and e.get("status") == "known"]


def match_known(violation: dict, known: list) -> Optional[dict]:
    for e in known:
        if e.get("kind") != violation["kind"]:
            continue
        m = e.get("match") or {}
        if all(violation["detail"].get(k) == v for k, v in m.items()):
            return e
    return None


def first_unknown(violations: list, known: list):
    for v in violations:
        if not match_known(v, known):
            return v
    return None


# ----------------------------------------------------------------------------------------
# worker
# ----------------------------------------------------------------------------------------
def _merge(dst: dict, src: dict):
    for k, v in src.items():
        dst[k] = dst.get(k, 0) + v


def run_chunk(prop: str, master: int, tier: str, start: int, count: int, wall_guard: float):
    faulthandler.dump_traceback_later(wall_guard, exit=True)
    try:
        mod = load_module(prop)
        known = load_known(prop)
        out = {"runs": 0, "faults": {}, "probes": {}, "sim_time": 0.0, "steps": 0, "distinct": set(),
               "violations": [], "known_hits": {}, "samples": [], "nontrivial": 0, "extra": {}}
        for i in range(start, start + count):
            seed = derive_seed(master, prop, i)
            plan = mod.gen_plan(random.Random(seed), tier)
            plan["seed"] = seed
            res = mod.run_plan(plan)
            out["runs"] += 1
            _merge(out["faults"], res.faults)
            _merge(out["probes"], res.probes)
            _merge(out["extra"], {k: v for k, v in res.extra.items() if isinstance(v, (int, float))})
            out["sim_time"] += res.sim_time
            out["steps"] += res.steps
            if res.faults or res.probes:
                out["nontrivial"] += 1
                out["distinct"].add(res.abstract[:12])
            if i - start < 1 and len(out["samples"]) < 1:
                out["samples"].append(plan)
            for v in res.violations:
                k = match_known(v, known)
                if k is not None:
                    key = k.get("id") or k["kind"]
                    out["known_hits"][key] = out["known_hits"].get(key, 0) + 1
            v = first_unknown(res.violations, known)
            if v is not None and len(out["violations"]) < 3:
                out["violations"].append({"index": i, "seed": seed, "plan": plan, "violation": v,
                                          "digest": res.digest})
        return out
    finally:
        faulthandler.cancel_dump_traceback_later()


# ----------------------------------------------------------------------------------------
# shrinking
# ----------------------------------------------------------------------------------------
def _fails_same(mod, plan, kind, known, warmup: int = 0):
    """Run the plan (after `warmup` throw-away executions of the same plan in this process, for failures that need
    state left behind by an earlier run, e.g. a class-level attribute of the code under test)."""
    try:
        for _ in range(warmup):
            mod.run_plan(plan)
        res = mod.run_plan(plan)
    except Exception:
        return None
    for v in res.violations:
        if v["kind"] == kind and not match_known(v, known):
            return res, v
    return None


def shrink(mod, plan: dict, kind: str, known: list, budget_s: float = 45.0, max_evals: int = 1500, warmup: int = 0):
    """ddmin over plan['steps'], then per-step and knob simplification; keeps `kind`."""
    t0 = time.time()
    evals = 0
    best = plan

    def attempt(cand):
        nonlocal evals, best
        if evals >= max_evals or time.time() - t0 > budget_s:
            return False
        evals += 1
        r = _fails_same(mod, cand, kind, known, warmup)
        if r:
            best = cand
            return True
        return False

    def with_steps(p, steps):
        q = dict(p)
        q["steps"] = steps
        return q

    # ddmin
    steps = list(best.get("steps", []))
    n = 2
    while len(steps) >= 2 and evals < max_evals and time.time() - t0 <= budget_s:
        chunk = max(1, len(steps) // n)
        reduced = False
        for i in range(0, len(steps), chunk):
            cand = steps[:i] + steps[i + chunk:]
            if cand and attempt(with_steps(best, cand)):
                steps = cand
                n = max(n - 1, 2)
                reduced = True
                break
        if not reduced:
            if chunk == 1:
                break
            n = min(len(steps), n * 2)
    # one-at-a-time removal until fixpoint
    changed = True
    while changed and evals < max_evals and time.time() - t0 <= budget_s:
        changed = False
        for i in range(len(steps) - 1, -1, -1):
            cand = steps[:i] + steps[i + 1:]
            if attempt(with_steps(best, cand)):
                steps = cand
                changed = True
    # per-step simplification
    simplify_step = getattr(mod, "simplify_step", None)
    if simplify_step:
        changed = True
        rounds = 0
        while changed and rounds < 4 and evals < max_evals and time.time() - t0 <= budget_s:
            changed = False
            rounds += 1
            for i in range(len(steps)):
                for simpler in simplify_step(steps[i]):
                    cand = steps[:i] + [simpler] + steps[i + 1:]
                    if attempt(with_steps(best, cand)):
                        steps = cand
                        changed = True
                        break
    simplify_plan = getattr(mod, "simplify_plan", None)
    if simplify_plan:
        changed = True
        rounds = 0
        while changed and rounds < 4 and evals < max_evals and time.time() - t0 <= budget_s:
            changed = False
            rounds += 1
            for cand in simplify_plan(best):
                if attempt(cand):
                    changed = True
                    break
    return best, evals


# ----------------------------------------------------------------------------------------
# replay
# ----------------------------------------------------------------------------------------
def write_replay(prop: str, plan: dict, violation: dict, digest: str, orig_steps: int, warmup: int = 0) -> str:
    os.makedirs(REPLAY_DIR, exist_ok=True)
    body = {"property": prop, "seed": plan.get("seed"), "kind": violation["kind"],
            "detail": violation["detail"], "trace_digest": digest, "original_steps": orig_steps,
            "warmup_runs": warmup, "plan": plan}
    h = hashlib.blake2b(json.dumps(body, sort_keys=True, default=repr).encode(), digest_size=5).hexdigest()
    path = os.path.join(REPLAY_DIR, f"{prop}-{plan.get('seed')}-{h}.json")
    with open(path, "w") as f:
        json.dump(body, f, indent=1, sort_keys=True, default=repr)
    return path


def do_replay(prop: str, path: str, quiet=False) -> int:
    mod = load_module(prop)
    with open(path) as f:
        body = json.load(f)
    known = load_known(prop)
    for _ in range(int(body.get("warmup_runs") or 0)):
        mod.run_plan(body["plan"])
    res = mod.run_plan(body["plan"])
    hit = None
    for v in res.violations:
        if v["kind"] == body["kind"]:
            hit = v
            break
    print(f"REPLAY property={prop} kind={body['kind']} reproduced={'yes' if hit else 'no'} "
          f"digest={res.digest} expected_digest={body['trace_digest']}")
    if hit is None:
        if res.violations:
            print("other violations:", json.dumps(res.violations[:3], default=repr))
        return 0
    if not quiet:
        print(json.dumps(hit, indent=1, default=repr))
    if match_known(hit, known):
        print(f"KNOWN-FINDING: property={prop} {hit['kind']}")
        return 0
    if res.digest != body["trace_digest"]:
        print("REPLAY-DIVERGED: violation reproduced but trace digest differs")
        return 2
    print(f"VIOLATION property={prop} replay={path}")
    return 1


def verify_replay_fresh(prop: str, path: str) -> bool:
    """Re-run the replay file in a fresh interpreter; require same kind + digest."""
    env = dict(os.environ)
    env["PYTHONHASHSEED"] = "0"
    env["HSIM_REEXEC"] = "1"
    p = subprocess.run([sys.executable, "-m", "hsim", prop, "--replay", path, "--quiet"],
                       cwd=VERIF_DIR, env=env, capture_output=True, text=True, timeout=300)
    return p.returncode == 1 and "reproduced=yes" in p.stdout


# ----------------------------------------------------------------------------------------
# main
# ----------------------------------------------------------------------------------------
def run_check(prop: str, tier: str, master: int, budget: float, jobs: int, max_runs: Optional[int] = None) -> int:
    t0 = time.time()
    mod = load_module(prop)  # import before fork
    known = load_known(prop)
    chunk = getattr(mod, "CHUNK", {"quick": 40, "thorough": 100}).get(tier, 50)
    agg = {"runs": 0, "faults": {}, "probes": {}, "sim_time": 0.0, "steps": 0, "nontrivial": 0, "extra": {}}
    distinct = set()
    known_hits: Dict[str, int] = {}
    violations = []
    samples = []
    next_index = 0
    harness_error = None
    ctx = multiprocessing.get_context("fork")
    wall_guard = max(120.0, budget * 2 + 60)
    with cf.ProcessPoolExecutor(max_workers=jobs, mp_context=ctx) as pool:
        pending = set()

        def submit():
            nonlocal next_index
            if max_runs is not None and next_index >= max_runs:
                return False
            n = chunk if max_runs is None else min(chunk, max_runs - next_index)
            pending.add(pool.submit(run_chunk, prop, master, tier, next_index, n, wall_guard))
            next_index += n
            return True

        for _ in range(jobs * 2):
            submit()
        try:
            while pending:
                done, pending_now = cf.wait(pending, timeout=wall_guard, return_when=cf.FIRST_COMPLETED)
                if not done:
                    harness_error = "worker timeout"
                    break
                pending.difference_update(done)
                for fut in done:
                    out = fut.result()
                    agg["runs"] += out["runs"]
                    agg["sim_time"] += out["sim_time"]
                    agg["steps"] += out["steps"]
                    agg["nontrivial"] += out["nontrivial"]
                    _merge(agg["faults"], out["faults"])
                    _merge(agg["probes"], out["probes"])
                    _merge(agg["extra"], out["extra"])
                    _merge(known_hits, out["known_hits"])
                    if len(distinct) < DISTINCT_CAP:
                        distinct.update(out["distinct"])
                    if len(samples) < 3:
                        samples.extend(out["samples"][: 3 - len(samples)])
                    violations.extend(out["violations"])
                    if not violations and time.time() - t0 < budget:
                        submit()
        except Exception as e:  # BrokenProcessPool etc
            harness_error = f"{type(e).__name__}: {e}"
            traceback.print_exc()
        if harness_error:
            for p in pending:
                p.cancel()
            pool.shutdown(wait=False, cancel_futures=True)

    explore_wall = time.time() - t0
    rc = 0
    replay_paths = []
    if harness_error:
        print(f"HARNESS-ERROR property={prop} {harness_error}")
        rc = 2
    # known findings
    for key, n in sorted(known_hits.items()):
        entry = next((e for e in known if (e.get("id") or e["kind"]) == key), None)
        what = entry.get("what", key) if entry else key
        print(f"KNOWN-FINDING: property={prop} {key}: {what} (hit in {n} runs)")
    # violations: shrink the first of each kind (max 3 kinds)
    if violations and rc == 0:
        by_kind = {}
        for v in sorted(violations, key=lambda v: (len(v["plan"].get("steps", [])), v["index"])):
            by_kind.setdefault(v["violation"]["kind"], v)
        for kind, v in list(by_kind.items())[:3]:
            orig_steps = len(v["plan"].get("steps", []))
            warmup = 0
            if not _fails_same(mod, v["plan"], kind, known) and _fails_same(mod, v["plan"], kind, known, 1):
                # only fails on a process that has already executed a run: state leaks between runs in the code under
                # test. Replays of this file execute the plan once as warm-up before the judged execution.
                warmup = 1
            small, evals = shrink(mod, v["plan"], kind, known, warmup=warmup)
            r = _fails_same(mod, small, kind, known, warmup)
            if not r:
                # The worker saw it, this process does not: the failure depends on something outside the plan
                # (in practice: object addresses / allocator state, e.g. code keyed on id()). It is still a
                # violation that was observed; report it with the unshrunk plan and say that it is unstable.
                path = write_replay(prop, v["plan"], {**v["violation"], "detail": {**v["violation"]["detail"],
                                    "unstable": "observed in a worker, not reproduced when re-run: depends on "
                                                "process state outside the plan (e.g. object addresses)"}},
                                    v["digest"], orig_steps)
                print(f"UNSTABLE-REPLAY property={prop} kind={kind} seed={v['seed']}: observed once, not reproduced "
                      f"in-process; reporting the unshrunk plan")
                print(f"violation kind={kind} seed={v['seed']} steps {orig_steps}->{orig_steps} (not shrunk) "
                      f"detail={json.dumps(v['violation']['detail'], default=repr)[:600]}")
                print(f"VIOLATION property={prop} replay={path}")
                replay_paths.append(path)
                rc = 1 if rc == 0 else rc
                continue
            res, viol = r
            path = write_replay(prop, small, viol, res.digest, orig_steps, warmup)
            if verify_replay_fresh(prop, path):
                print(f"violation kind={kind} seed={v['seed']} steps {orig_steps}->{len(small.get('steps', []))} "
                      f"(shrink evals={evals}) detail={json.dumps(viol['detail'], default=repr)[:600]}")
                print(f"VIOLATION property={prop} replay={path}")
                replay_paths.append(path)
                rc = 1 if rc == 0 else rc
            else:
                print(f"UNSTABLE-REPLAY property={prop} kind={kind}: reproduced in-process but not in a fresh interpreter "
                      f"(depends on process state outside the plan)")
                print(f"violation kind={kind} seed={v['seed']} steps {orig_steps}->{len(small.get('steps', []))} "
                      f"detail={json.dumps(viol['detail'], default=repr)[:600]}")
                print(f"VIOLATION property={prop} replay={path}")
                replay_paths.append(path)
                rc = 1 if rc == 0 else rc
    wall = time.time() - t0
    write_evidence(prop, tier, master, mod, agg, distinct, samples, wall, explore_wall, len(replay_paths),
                   known_hits, jobs)
    rate = agg["runs"] / max(explore_wall, 1e-9) * 3600
    print(f"{prop} tier={tier} seed={master} runs={agg['runs']} ({rate:,.0f}/h) distinct={len(distinct)} "
          f"sim_time={agg['sim_time']:.0f}s faults={json.dumps(agg['faults'], sort_keys=True)} "
          f"probes={json.dumps(agg['probes'], sort_keys=True)} wall={wall:.1f}s rc={rc}")
    return rc


def write_evidence(prop, tier, master, mod, agg, distinct, samples, wall, explore_wall, n_viol, known_hits, jobs):
    os.makedirs(EVIDENCE_DIR, exist_ok=True)
    comps = getattr(mod, "COMPONENTS", {})
    zero_probes = [p for p in getattr(mod, "PROBES", []) if not agg["probes"].get(p)]
    ev = {
        "property_id": prop,
        "tier": tier,
        "seed": master,
        "level": "exploration",
        "coverage": {
            "evaluations": agg["runs"],
            "distinct_nontrivial": len(distinct),
            "rule": ("one evaluation = one simulated run of a plan generated from run seed "
                     "H(VERIF_SEED, property, index); non-trivial = the run injected >= 1 fault or reached >= 1 "
                     "rare-condition probe; distinct = distinct abstract event-order digests (sequence of "
                     "(actor, event kind) with payloads erased) among non-trivial runs"
                     + (f"; set capped at {DISTINCT_CAP}" if len(distinct) >= DISTINCT_CAP else "")),
            "samples": samples[:3],
            "nontrivial_runs": agg["nontrivial"],
            "runs_per_hour": round(agg["runs"] / max(explore_wall, 1e-9) * 3600),
            "simulated_seconds": round(agg["sim_time"], 1),
            "plan_steps_executed": agg["steps"],
            "fault_fires": dict(sorted(agg["faults"].items())),
            "probe_hits": dict(sorted(agg["probes"].items())),
            "probes_never_hit": zero_probes,
            "other_counters": dict(sorted(agg["extra"].items())),
            "known_findings_hit": known_hits,
            "components": comps,
            "workers": jobs,
            "explore_wall_s": round(explore_wall, 2),
        },
        "assumptions": getattr(mod, "ASSUMPTIONS", []),
        "wall_s": round(wall, 2),
        "violations": n_viol,
    }
    path = os.path.join(EVIDENCE_DIR, f"{prop}.json")
    tmp = path + ".tmp"
    with open(tmp, "w") as f:
        json.dump(ev, f, indent=1, sort_keys=True, default=repr)
    os.replace(tmp, path)


def main(argv=None):
    ap = argparse.ArgumentParser()
    ap.add_argument("prop")
    ap.add_argument("--tier", default=os.environ.get("VERIF_TIER") or "quick", choices=["quick", "thorough"])
    ap.add_argument("--replay")
    ap.add_argument("--quiet", action="store_true")
    ap.add_argument("--runs", type=int, default=None)
    ap.add_argument("--budget", type=float, default=None)
    args = ap.parse_args(argv)
    prop = args.prop.upper()
    if args.replay:
        return do_replay(prop, args.replay, quiet=args.quiet)
    master = int(os.environ.get("VERIF_SEED") or 0)
    budget = args.budget if args.budget is not None else float(
        os.environ.get("VERIF_BUDGET_S") or DEFAULT_BUDGET[args.tier])
    jobs = int(os.environ.get("VERIF_JOBS") or min(16, os.cpu_count() or 1))
    return run_check(prop, args.tier, master, budget, jobs, max_runs=args.runs)


if __name__ == "__main__":
    sys.exit(main())

"""Simulated datagram network + stream transport.

Every datagram's fate (delay / drop / duplicate / corrupt) is decided either explicitly by
the plan step that caused it (``fate=`` argument) or, for traffic the system under test
emits on its own, from a PRNG keyed by (net seed, link, emission index on that link).
Delivery mirrors ``_SelectorDatagramTransport._read_ready``: an exception escaping
``datagram_received`` is recorded (observable) and does not kill the endpoint.
"""
from __future__ import annotations

import hashlib
import random
from typing import Any, Callable, Dict, List, Optional, Tuple

Addr = Tuple[str, int]


def sub_seed(*parts) -> int:
    h = hashlib.blake2b(repr(parts).encode(), digest_size=8).digest()
    return int.from_bytes(h, "big")


class Fate:
    """What happens to one datagram."""
    __slots__ = ("delay", "drop", "dup", "corrupt")

    def __init__(self, delay=0.0, drop=False, dup=None, corrupt=None):
        self.delay = delay
        self.drop = drop
        self.dup = dup          # None or extra delay for the second copy
        self.corrupt = corrupt  # None or a corruption spec (dict)

    @classmethod
    def from_json(cls, d: Optional[dict]) -> "Fate":
        if not d:
            return cls()
        return cls(d.get("delay", 0.0), d.get("drop", False), d.get("dup"), d.get("corrupt"))

    def to_json(self) -> dict:
        d: Dict[str, Any] = {}
        if self.delay:
            d["delay"] = self.delay
        if self.drop:
            d["drop"] = True
        if self.dup is not None:
            d["dup"] = self.dup
        if self.corrupt is not None:
            d["corrupt"] = self.corrupt
        return d


# delay mixture: exact ties, multiples of the 0.1 s resend tick, continuous
def draw_delay(rng: random.Random, scale: float = 0.05) -> float:
    r = rng.random()
    if r < 0.35:
        return 0.0
    if r < 0.50:
        return round(0.1 * rng.randint(1, 4), 3)
    if r < 0.9:
        return round(rng.random() * scale, 4)
    return round(rng.random() * scale * 10, 4)


def draw_fate(rng: random.Random, cfg: dict) -> Fate:
    f = Fate()
    if rng.random() < cfg.get("p_delay", 0.0):
        f.delay = draw_delay(rng, cfg.get("delay_scale", 0.05))
    if rng.random() < cfg.get("p_drop", 0.0):
        f.drop = True
    if rng.random() < cfg.get("p_dup", 0.0):
        f.dup = draw_delay(rng, cfg.get("delay_scale", 0.05))
    return f


class SimDatagramTransport:
    """What asyncio hands to a DatagramProtocol."""

    def __init__(self, net: "SimNet", addr: Addr, protocol):
        self.net = net
        self.addr = addr
        self.protocol = protocol
        self._closing = False

    def sendto(self, data, addr=None):
        if self._closing:
            return
        self.net.emit(self.addr, addr, bytes(data))

    def get_extra_info(self, name, default=None):
        if name == "sockname":
            return self.addr
        return default

    def is_closing(self):
        return self._closing

    def close(self):
        if self._closing:
            return
        self._closing = True
        self.net.unbind(self.addr)

        def _lost():
            # a closed socket does not keep its protocol alive
            proto, self.protocol = self.protocol, None
            if proto is not None:
                proto.connection_lost(None)
        self.net.loop.call_soon(_lost)

    def abort(self):
        self.close()


class SimNet:
    def __init__(self, loop, net_seed: int = 0, sys_fault_cfg: Optional[dict] = None):
        self.loop = loop
        loop.net = self
        self.net_seed = net_seed
        # fault config for system-originated datagrams, keyed by link name or "*"
        self.sys_fault_cfg = sys_fault_cfg or {}
        self.endpoints: Dict[Addr, Any] = {}       # addr -> object with datagram_received(data, src)
        self.transports: Dict[Addr, SimDatagramTransport] = {}
        self.link_counts: Dict[Tuple[Addr, Addr], int] = {}
        self.fault_counts: Dict[str, int] = {}
        self.escaped: List[Tuple[float, Addr, Addr, BaseException]] = []
        self.taps: List[Callable] = []   # tap(kind, t, src, dst, data)
        self._next_port = 13000
        self.proxy_ip = "10.0.0.1"
        # addresses whose emissions are "system originated" (fate drawn from PRNG)
        self.delivered = 0
        self.partitioned = set()  # set of frozenset({a,b}) or addr

    # -- binding ------------------------------------------------------------------
    def bind(self, protocol, local_addr=None) -> SimDatagramTransport:
        if not local_addr or not local_addr[1]:
            self._next_port += 1
            ip = self.proxy_ip if (not local_addr or local_addr[0] in ("0.0.0.0", "")) else local_addr[0]
            local_addr = (ip, self._next_port)
        tr = SimDatagramTransport(self, local_addr, protocol)
        self.endpoints[local_addr] = protocol
        self.transports[local_addr] = tr
        return tr

    def attach(self, addr: Addr, endpoint):
        """Attach a stub endpoint (anything with datagram_received)."""
        self.endpoints[addr] = endpoint

    def unbind(self, addr: Addr):
        self.endpoints.pop(addr, None)
        self.transports.pop(addr, None)

    def count(self, kind: str, n: int = 1):
        self.fault_counts[kind] = self.fault_counts.get(kind, 0) + n

    # -- sending ------------------------------------------------------------------
    def emit(self, src: Addr, dst: Addr, data: bytes):
        """System-originated datagram: fate from keyed PRNG."""
        key = (src, dst)
        idx = self.link_counts.get(key, 0)
        self.link_counts[key] = idx + 1
        for tap in self.taps:
            tap("emit", self.loop.time(), src, dst, data)
        cfg = self.sys_fault_cfg
        if cfg:
            rng = random.Random(sub_seed(self.net_seed, src, dst, idx))
            fate = draw_fate(rng, cfg)
        else:
            fate = Fate()
        self._apply(src, dst, data, fate)

    def send(self, src: Addr, dst: Addr, data: bytes, fate: Optional[Fate] = None):
        """Stub-originated datagram with an explicit fate."""
        for tap in self.taps:
            tap("send", self.loop.time(), src, dst, data)
        self._apply(src, dst, data, fate or Fate())

    def _apply(self, src, dst, data, fate: Fate):
        if fate.drop or (src in self.partitioned) or (dst in self.partitioned):
            self.count("drop")
            return
        if fate.corrupt is not None:
            data = corrupt(data, fate.corrupt)
            self.count("corrupt")
        if fate.delay:
            self.count("delay")
        self.loop.call_at(self.loop.time() + fate.delay, self._deliver, src, dst, data)
        if fate.dup is not None:
            self.count("dup")
            self.loop.call_at(self.loop.time() + fate.delay + fate.dup, self._deliver, src, dst, data)

    def _deliver(self, src, dst, data):
        ep = self.endpoints.get(dst)
        for tap in self.taps:
            tap("deliver", self.loop.time(), src, dst, data)
        if ep is None:
            self.count("no_endpoint")
            return
        self.delivered += 1
        try:
            ep.datagram_received(data, src)
        except (SystemExit, KeyboardInterrupt):
            raise
        except BaseException as e:  # noqa: mirrors asyncio's _fatal_error-less logging path
            self.escaped.append((self.loop.time(), src, dst, e))
            for tap in self.taps:
                tap("escaped", self.loop.time(), src, dst, e)
        for tap in self.taps:
            tap("delivered", self.loop.time(), src, dst, data)


def corrupt(data: bytes, spec: dict) -> bytes:
    kind = spec["kind"]
    if kind == "truncate":
        n = spec["n"]
        return data[:max(0, len(data) - n)]
    if kind == "extend":
        return data + bytes.fromhex(spec["hex"])
    if kind == "setbyte":
        i = spec["i"] % max(1, len(data))
        b = bytearray(data)
        if b:
            b[i] = spec["v"] & 0xFF
        return bytes(b)
    if kind == "replace":
        return bytes.fromhex(spec["hex"])
    raise ValueError(kind)


# ----------------------------------------------------------------------------------------
# Stream transport for the SOCKS5 control connection
# ----------------------------------------------------------------------------------------
class SimStreamTransport:
    """Write side of a fake TCP connection; the read side is a real asyncio.StreamReader
    that the viewer stub feeds."""

    def __init__(self, loop, peername: Addr, on_data: Callable[[bytes], None]):
        self.loop = loop
        self.peername = peername
        self.on_data = on_data
        self._closing = False
        self._protocol = None
        self.closed_at: Optional[float] = None

    def set_protocol(self, protocol):
        self._protocol = protocol

    def get_protocol(self):
        return self._protocol

    def write(self, data):
        if self._closing:
            return
        self.on_data(bytes(data))

    def writelines(self, lines):
        for l in lines:
            self.write(l)

    def get_extra_info(self, name, default=None):
        if name == "peername":
            return self.peername
        return default

    def is_closing(self):
        return self._closing

    def can_write_eof(self):
        return False

    def close(self):
        if self._closing:
            return
        self._closing = True
        self.closed_at = self.loop.time()
        if self._protocol is not None:
            self.loop.call_soon(self._protocol.connection_lost, None)

    def abort(self):
        self.close()

    def get_write_buffer_size(self):
        return 0

    def pause_reading(self):
        pass

    def resume_reading(self):
        pass

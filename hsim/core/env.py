"""Per-run environment: virtual loop, patched clocks / uuid / random, log capture.

Everything nondeterministic that the repo reads goes through here (DESIGN §2.2).
"""
from __future__ import annotations

import asyncio
import datetime as _dt
import gc
import hashlib
import logging
import random
import time as _time
import uuid as _uuid
from typing import List, Optional

from .loop import SimLoop, install, uninstall
from .net import SimNet

EPOCH = 1_700_000_000.0  # fixed wall-clock origin of every run
_REAL_DATETIME = _dt.datetime


class _LogCapture(logging.Handler):
    def __init__(self):
        super().__init__(level=logging.DEBUG)
        self.records: List[logging.LogRecord] = []

    def emit(self, record):
        self.records.append(record)


class _DtShim:
    """Stands in for the `datetime` module object inside a repo module (`circuit.dt`)."""

    def __init__(self, loop: SimLoop):
        real = _dt
        shim_loop = loop

        base = _REAL_DATETIME(2023, 11, 14, 22, 13, 20)

        class datetime(_REAL_DATETIME):
            @classmethod
            def now(cls, tz=None):
                return base + real.timedelta(seconds=shim_loop.time())

            @classmethod
            def utcnow(cls):
                return base + real.timedelta(seconds=shim_loop.time())

        self.datetime = datetime
        self.timedelta = real.timedelta
        self.timezone = real.timezone
        self.date = real.date
        self.time = real.time
        self._real = real

    def __getattr__(self, item):
        return getattr(self._real, item)


class SimEnv:
    """Context manager that owns one simulated run."""

    def __init__(self, seed: int, net_seed: Optional[int] = None, sys_fault_cfg: Optional[dict] = None,
                 log_level: int = logging.WARNING):
        self.seed = seed
        self.cleanups = []          # run at exit, whatever happened (scratch files of a world etc.)
        self.loop = SimLoop()
        self.net = SimNet(self.loop, net_seed if net_seed is not None else seed, sys_fault_cfg)
        self.log = _LogCapture()
        self.log_level = log_level
        self._undo = []
        self._uuid_counter = 0
        self.trace = hashlib.blake2b(digest_size=16)
        self.abstract = hashlib.blake2b(digest_size=16)
        self.trace_len = 0

    # ---- trace digests ----------------------------------------------------------
    def tr(self, *items):
        """Full trace record (payloads included) -> determinism digest."""
        self.trace.update(repr(items).encode())
        self.trace.update(b"\n")
        self.trace_len += 1

    def ab(self, *items):
        """Abstract event record (actor, kind) -> distinct-interleavings measure."""
        self.abstract.update(repr(items).encode())
        self.abstract.update(b"\n")

    # ---- patches ----------------------------------------------------------------
    def _patch(self, obj, name, value):
        old = getattr(obj, name)
        setattr(obj, name, value)
        self._undo.append((obj, name, old))

    def _sim_uuid4(self):
        self._uuid_counter += 1
        h = hashlib.blake2b(b"%d:%d" % (self.seed, self._uuid_counter), digest_size=16).digest()
        return _uuid.UUID(bytes=h, version=4)

    _frozen = 0

    def __enter__(self):
        gc.collect()
        if SimEnv._frozen < 2:
            # everything imported so far (incl. lazily during the first run) is permanent:
            # keeps later collections cheap
            gc.freeze()
            SimEnv._frozen += 1
        gc.disable()
        install(self.loop)
        random.seed(self.seed)
        self._patch(_uuid, "uuid4", self._sim_uuid4)
        loop = self.loop
        self._patch(_time, "time", lambda: EPOCH + loop.time())
        self._patch(_time, "monotonic", lambda: loop.time())
        # module-level `dt` seams in the repo
        shim = _DtShim(self.loop)
        import hippolyzer.lib.base.message.circuit as base_circuit
        self._patch(base_circuit, "dt", shim)
        root = logging.getLogger()
        self._old_level = root.level
        self._old_handlers = root.handlers[:]
        root.handlers[:] = [self.log]
        root.setLevel(self.log_level)
        self._old_raise = logging.raiseExceptions
        logging.raiseExceptions = True
        return self

    def __exit__(self, *exc):
        try:
            # cancel leftover tasks quietly (still under the patched clocks / captured logging)
            for t in list(asyncio.all_tasks(self.loop)):
                t.cancel()
            self.loop.set_exception_handler(lambda l, c: None)
            try:
                self.loop.run_sim(until=self.loop.time(), max_iterations=10000)
            except BaseException:
                pass
        finally:
            for fn in getattr(self, "cleanups", []):
                try:
                    fn()
                except Exception:
                    pass
            root = logging.getLogger()
            root.handlers[:] = self._old_handlers
            root.setLevel(self._old_level)
            for obj, name, old in reversed(self._undo):
                setattr(obj, name, old)
            self._undo.clear()
            uninstall()
            self.loop.close()
            gc.enable()
        return False

    # ---- helpers ----------------------------------------------------------------
    def log_records(self, min_level=logging.WARNING):
        return [r for r in self.log.records if r.levelno >= min_level]

    def digest(self) -> str:
        return self.trace.hexdigest()

    def abstract_digest(self) -> str:
        return self.abstract.hexdigest()

"""Simulated multiprocessing primitives: both "processes" run in the one virtual loop.

``SimQueue.put`` pickles (exactly what crosses the real process boundary); the item becomes
visible to ``get(False)`` only after a per-item latency; FIFO per queue is preserved.
"""
from __future__ import annotations

import pickle
import queue
from collections import deque
from typing import Callable, Optional


class SimEvent:
    def __init__(self):
        self._flag = False

    def is_set(self):
        return self._flag

    def set(self):
        self._flag = True

    def clear(self):
        self._flag = False

    def wait(self, timeout=None):
        return self._flag


class SimQueue:
    def __init__(self, loop=None, name="q", latency: Optional[Callable[[], float]] = None):
        self.loop = loop
        self.name = name
        self.latency = latency or (lambda: 0.0)
        self._items = deque()  # (avail_time, pickled)
        self._last_avail = 0.0
        self.put_log = []      # (time, obj) every put, for oracles
        self.on_put: Optional[Callable] = None
        self.on_get: Optional[Callable] = None
        self.puts = 0
        self.gets = 0

    def put(self, obj, block=True, timeout=None):
        data = pickle.dumps(obj)
        now = self.loop.time() if self.loop else 0.0
        avail = max(now + self.latency(), self._last_avail)
        self._last_avail = avail
        self._items.append((avail, data))
        self.puts += 1
        if self.on_put is not None:
            self.on_put(now, pickle.loads(data))

    def put_nowait(self, obj):
        self.put(obj, False)

    def get(self, block=True, timeout=None):
        now = self.loop.time() if self.loop else 0.0
        if self._items and self._items[0][0] <= now + 1e-12:
            _, data = self._items.popleft()
            self.gets += 1
            obj = pickle.loads(data)
            if self.on_get is not None:
                self.on_get(now, obj)
            return obj
        raise queue.Empty()

    def get_nowait(self):
        return self.get(False)

    def empty(self):
        return not self._items

    def qsize(self):
        return len(self._items)

    def close(self):
        pass

    def cancel_join_thread(self):
        pass


class SimFlowContext:
    """Stands in for hippolyzer.lib.proxy.http_proxy.HTTPFlowContext."""
    loop = None
    latency_from = None
    latency_to = None

    def __init__(self):
        cls = type(self)
        self.from_proxy_queue = SimQueue(cls.loop, "from_proxy", cls.latency_from)
        self.to_proxy_queue = SimQueue(cls.loop, "to_proxy", cls.latency_to)
        self.shutdown_signal = SimEvent()
        self.mitmproxy_ready = SimEvent()


class _MPShim:
    """Replaces the `multiprocessing` module object inside repo modules."""
    Event = SimEvent
    Queue = SimQueue

    def __getattr__(self, item):
        import multiprocessing
        return getattr(multiprocessing, item)


def make_flow_context_cls(loop, latency_from=None, latency_to=None):
    return type("SimFlowContextBound", (SimFlowContext,),
                {"loop": loop, "latency_from": staticmethod(latency_from) if latency_from else None,
                 "latency_to": staticmethod(latency_to) if latency_to else None})

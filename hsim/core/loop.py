"""Virtual-time asyncio event loop.

``SimLoop`` is asyncio's own ``BaseEventLoop`` (ready queue FIFO, timer heap, Task/Future
machinery all real) with the selector replaced by one that *advances a simulated clock*
instead of sleeping.  No wall clock is ever read.  Network endpoints are bound on a
``SimNet`` through the overridden ``create_datagram_endpoint``.
"""
from __future__ import annotations

import asyncio
import asyncio.events as _events
import threading
from asyncio import base_events
from typing import Optional


class SimDeadlock(RuntimeError):
    """run_until_complete() was asked to wait, but nothing can ever wake the loop."""


class _SeqTimerHandle(_events.TimerHandle):
    """TimerHandle with FIFO order among equal deadlines (plain asyncio leaves ties unspecified)."""
    __slots__ = ("_seq",)

    def __lt__(self, other):
        if isinstance(other, _SeqTimerHandle):
            return (self._when, self._seq) < (other._when, other._seq)
        return self._when < other._when

    def __le__(self, other):
        return self == other or self < other

    def __gt__(self, other):
        return not self <= other

    def __ge__(self, other):
        return not self < other

    __hash__ = _events.TimerHandle.__hash__


class _FakeSelector:
    __slots__ = ("loop",)

    def __init__(self, loop: "SimLoop"):
        self.loop = loop

    def select(self, timeout=None):
        loop = self.loop
        if timeout is None:
            raise SimDeadlock("event loop is idle with no timers: nothing can make progress")
        if timeout > 0:
            # Jump exactly onto the next timer so that float error never leaves us short
            sched = loop._scheduled
            if sched:
                nxt = sched[0]._when
                if nxt > loop._now:
                    loop._now = min(nxt, loop._now + timeout) if nxt - loop._now > timeout else nxt
                    return []
            loop._now += timeout
        return []

    def close(self):
        pass


class SimLoop(base_events.BaseEventLoop):
    """One per simulated run."""

    def __init__(self, net=None):
        super().__init__()
        self._now = 0.0
        self._selector = _FakeSelector(self)
        self._clock_resolution = 1e-9
        self.net = net
        self.iterations = 0
        # Exceptions that reached the loop's exception handler (unhandled task exceptions &c.)
        self.loop_exceptions = []
        self.set_exception_handler(self._record_exception)
        self._task_counter = 0
        self._timer_seq = 0
        self.set_task_factory(self._task_factory)

    # Deterministic task names (default names come from a process-global counter)
    def _task_factory(self, loop, coro, context=None, **kw):
        self._task_counter += 1
        kw.pop("name", None)
        if context is None:
            return asyncio.Task(coro, loop=loop, name=f"simtask-{self._task_counter}", **kw)
        return asyncio.Task(coro, loop=loop, name=f"simtask-{self._task_counter}", context=context, **kw)

    def _record_exception(self, loop, context):
        self.loop_exceptions.append(context)

    # --- clock -------------------------------------------------------------------
    def time(self):
        return self._now

    def stall(self, seconds: float):
        """The whole process is blocked for `seconds` (a hook that blocks, a suspended laptop, a GC pause): the clock
        moves on inside the current callback; every timer and delivery that came due meanwhile runs afterwards, in
        deadline order, exactly as asyncio does after a blocking call."""
        self._now += max(0.0, float(seconds))

    def call_at(self, when, callback, *args, context=None):
        if when is None:
            raise TypeError("when cannot be None")
        self._check_closed()
        timer = _SeqTimerHandle(when, callback, args, self, context)
        self._timer_seq += 1
        timer._seq = self._timer_seq
        import heapq
        heapq.heappush(self._scheduled, timer)
        timer._scheduled = True
        return timer

    # --- BaseEventLoop plumbing ----------------------------------------------------
    def _process_events(self, event_list):
        pass

    def _write_to_self(self):
        pass

    async def shutdown_default_executor(self, timeout=None):
        return

    # --- driving -----------------------------------------------------------------
    def run_sim(self, until: Optional[float] = None, max_iterations: int = 2_000_000) -> str:
        """Run until simulated time `until`, quiescence, or the iteration cap.

        Returns "quiescent", "time" or "cap".  The clock is left at `until` for "time".
        """
        self._check_closed()
        if self.is_running():
            raise RuntimeError("loop already running")
        self._thread_id = threading.get_ident()
        old_running = _events._get_running_loop()
        _events._set_running_loop(self)
        try:
            n = 0
            while True:
                if not self._ready:
                    # drop cancelled timers at the head so the emptiness test is honest
                    sched = self._scheduled
                    while sched and sched[0]._cancelled:
                        import heapq
                        h = heapq.heappop(sched)
                        h._scheduled = False
                        self._timer_cancelled_count = max(0, self._timer_cancelled_count - 1)
                    if not sched:
                        return "quiescent"
                    if until is not None and sched[0]._when > until:
                        self._now = max(self._now, until)
                        return "time"
                elif until is not None and self._now > until:
                    return "time"
                self._run_once()
                n += 1
                self.iterations += 1
                if n >= max_iterations:
                    return "cap"
        finally:
            self._thread_id = None
            _events._set_running_loop(old_running)

    # --- networking ----------------------------------------------------------------
    async def create_datagram_endpoint(self, protocol_factory, local_addr=None, remote_addr=None, **kw):
        if self.net is None:
            raise RuntimeError("SimLoop has no SimNet")
        protocol = protocol_factory()
        transport = self.net.bind(protocol, local_addr)
        self.call_soon(protocol.connection_made, transport)
        # mirror asyncio: connection_made has been called before this coroutine returns
        await asyncio.sleep(0)
        return transport, protocol

    def close(self):
        if self.is_closed():
            return
        # cancel whatever is left so that nothing complains at GC time
        self._ready.clear()
        self._scheduled.clear()
        super().close()


def install(loop: SimLoop):
    asyncio.set_event_loop(loop)


def uninstall():
    asyncio.set_event_loop(None)

#!/bin/bash
# Offline setup: nothing is fetched or built; verify the interpreter and imports only.
set -e
cd "$(dirname "$0")"
export PYTHONWARNINGS="ignore::UserWarning"
PYTHONPATH="$PWD:${VERIF_REPO:-/repo}" /venv/bin/python - <<'PY'
import asyncio, hippolyzer, mitmproxy, llsd, multidict
import hsim.core.loop, hsim.core.net, hsim.core.runner
print("setup ok", hippolyzer.__file__)
PY
mkdir -p evidence out/replays

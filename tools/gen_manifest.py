#!/usr/bin/env python3
"""Regenerates MANIFEST.json from the table below (kept in one place so it never goes stale)."""
import json
import os

HERE = os.path.dirname(os.path.dirname(os.path.abspath(__file__)))

TECH = "deterministic simulation with fault injection (seeded schedule/fault search, virtual-time asyncio loop)"

CLAIMED = {
    "C04": {
        "text": "Seeded search over interleavings of endpoint sends (reordered/duplicated by the simulated network), "
                "proxy injections and tracker-window evictions against the real ProxiedCircuit/InjectionTracker; "
                "the statement's laws (injective, monotone, avoids injected IDs, stable, exact back-translation) are "
                "checked after every event over the whole in-window ID range; the far end's acknowledgements (appended / "
                "PacketAck, injected IDs included) travel back through the circuit and their translation is judged too. "
                "One run in eight is a whole proxied session (SOCKS association, UseCircuitCode and its retransmissions, "
                "CloseCircuit / DisableSimulator with stragglers still arriving) judged by the same laws on the wire. "
                "Evidence over sampled histories, not proof.",
        "design_ref": "DESIGN.md §4 C04",
        "note": "Trusted: the harness's own bookkeeping of which wire IDs were injected (read off the wire), asyncio "
                "scheduling semantics. Assumes no packet-ID wrap-around and carves out IDs at/below an evicted injection.",
    },
    "C06": {
        "text": "Seeded search over datagram sequences through the real SOCKS5 server + UDP associations + session claim + "
                "circuits (1-2 viewers x 1-3 regions): valid template messages of every type both ways interleaved with "
                "the discard alphabet (unknown hosts, bad SOCKS framing, truncated headers, unknown message numbers, "
                "UDP-banned names, no circuit, pre-session), viewer disconnects, late region registration and "
                "proxy-originated traffic. A black-box wire model predicts forward/discard per datagram; each forward "
                "must be exactly one datagram to exactly the right peer with identical content (IDs/acks through the ID "
                "laws), each discard must emit nothing and leave session state untouched. Endpoint retransmissions, packet-ID "
                "leaps beyond the tracker window and regions registered without a handle are included. Sampled evidence.",
        "design_ref": "DESIGN.md §4 C06",
        "note": "Trusted: stub viewer/region framing code (RFC1928 + LLUDP header, written independently of the repo), "
                "the wire model's reading of 'open circuit'. Datagrams on a closed-but-not-reopened circuit are not judged.",
    },
    "C02": {
        "text": "C06's world plus passive inspectors at session, region and addon-hook level that read nothing / header / "
                "body of seeded subsets of messages (deferred parsing on or off), in-flight body corruption (truncate, "
                "extend, count/length byte rewrite, non-canonical re-zero-coding) and hostile text fields. Byte identity "
                "is checked on the wire and at every inspection point (serialize(message) == datagram as received, also "
                "after a failed parse). The input space itself is only sampled."
                " Also: an addon that takes messages, holds the unparsed copy across other traffic and re-sends it; "
                "over-limit zero-code runs appended in flight; encodes that fail half-way on the shared encoder / "
                "circuit.send of an unencodable message between other traffic; values that exactly fill their length prefix.",
        "design_ref": "DESIGN.md §4 C02",
        "note": "Trusted: the stub's reference zero-coder (decides canonicity) and header parser. Known finding: F32 signalling "
                "NaNs produced by byte damage are quieted on re-encode (known_findings.json).",
    },
    "C05": {
        "text": "Seeded search over interleavings of viewer/simulator (un)reliable packets, appended and standalone acks "
                "(late, repeated, mixing injected and real IDs), endpoint retransmissions, proxy injections either way "
                "(send / send_reliable), addon drops and take+late re-send, with loss/dup/delay/reorder on all four "
                "half-links and the virtual clock driving the real resend task. Black-box oracle at the endpoints: ack "
                "conservation and truthfulness per handled datagram, no ack for proxy-made IDs, exactly one ack back for a "
                "dropped reliable packet, resend cadence / budget / stop-after-ack, completion future flips exactly in "
                "the event that processed the ack or fails on budget exhaustion."
                " Process stalls (blocked for 0.5-12 resend intervals) are injected: the cadence's lower bound always "
                "holds, its upper bound is extended by the stalled time. Awaiters that give up (cancelled futures), reliable "
                "sends that cannot be encoded and endpoint retransmissions carrying fresh acks are part of the alphabet.",
        "design_ref": "DESIGN.md §4 C05",
        "note": "Trusted: stub endpoints acknowledge only what they received; cadence judged with one-tick tolerance; "
                "StartPingCheck rewriting not judged; tracker window at production size.",
    },
    "C07": {
        "text": "1-3 scripted addons loaded through the real AddonManager plus wait_for/subscribe_async subscribers; every "
                "hook (proxied_packet, lludp_message, rlv_command, lifecycle hooks) gets a seeded behaviour per tagged "
                "message (falsy/truthy/raise/take now-later-never/drop/send original/mutate/illegal follow-ups). An "
                "ownership model computed from the addons' own action log decides claimed-or-not; the wire must carry "
                "the original at most once and exactly once iff unclaimed, one ack per dropped reliable original, one "
                "datagram per legal copy; illegal ops must raise RuntimeError; dispatch order, exception isolation and "
                "the proxy's bookkeeping (logging once, main region, session close) are checked per message. Object hooks "
                "(handle_object_updated / killed) on tagged ObjectUpdate / KillObject traffic, permanent session- and "
                "region-level subscribers (observing, raising, with a raising predicate, subscribing from inside their "
                "handler), abnormal exits of subscribe_async blocks and cancelled waiters are part of the alphabet: every "
                "addon's object hook and every still-waiting subscriber is asked exactly once whatever the others did. A "
                "file-based addon (scratch directory, virtual mtimes through the get_mtime seam; observer or take-and-re-send "
                "relay; optional hot-reloaded helper module) is edited into valid / broken / missing states across reload "
                "windows; coroutine subscribers run as tasks.",
        "design_ref": "DESIGN.md §4 C07",
        "note": "Trusted: the intended first-truthy short-circuit semantics as read from AddonManager; explicit drop after "
                "take treated as legal.",
    },
    "C19": {
        "text": "Real HippoClient session/region/protocol/circuit and resend task against a stub simulator: reliable and "
                "unreliable tagged packets retransmitted and duplicated/reordered/dropped by the network, acks for the "
                "client's reliable sends appended or as PacketAck, late, repeated, bogus or never, clock running through "
                "resend intervals. Checked per delivery: an ack goes out for every reliable delivery; each subscriber "
                "(session-level and region-level, named and wildcard, plus the StartPingCheck responder) sees a reliable "
                "packet once and an unreliable one per delivery; send futures flip exactly in the event that processed "
                "their ack, fail with TimeoutError after exactly the transmission budget; first-transmission IDs strictly "
                "increase and retransmissions reuse their ID. The circuit may be torn down and re-opened mid-run "
                "(region.disconnect, UseCircuitCode again, optionally alive only once that is acked): nothing of its previous "
                "life may be retransmitted. One-off waiters with permanent subscribers right behind them; awaiters that give up; "
                "messages that may only come over the event queue arriving over UDP (refused, but acknowledged and their "
                "acks counted).",
        "design_ref": "DESIGN.md §4 C19",
        "note": "Trusted: stub simulator framing; login/Seed/EQ HTTP bypassed (session built from login data as login() "
                "does). A retransmission is only judged while fewer than 1000 newer reliable IDs lie in between (bursts of "
                "900-1500 packets fill the window on purpose); sends pending when the circuit is re-opened carry no "
                "further obligation.",
    },
    "C20": {
        "text": "Transfer clause only. Xfer (turbo on/off) and Transfer downloads served by a stub simulator in "
                "scheduler-chosen chunk orders with duplicates, loss at the source, late retransmissions, foreign-transfer "
                "chunks and silences around the 5 s timeout; Xfer uploads against a stub that requests the file and "
                "confirms chunks under lossy confirms. Oracle: done() becomes true in the instant the last missing "
                "chunk of 0..EOF is delivered - not earlier (end-marked chunk first), not later - and reassembly equals "
                "the payload; >5 s silence fails the transfer; a reported upload success implies the stub holds exactly "
                "the payload. The codec clause (inventory/animation/mesh round trips) is a pure function: not decided.",
        "design_ref": "DESIGN.md §4 C20, §5",
        "note": "Trusted: the stub's chunk framing (SendXferPacket / TransferPacket layouts written from the template). "
                "Codec clause of C20 not applicable to this technique.",
    },
    "C14": {
        "text": "A scene-generator stub (2 regions, 8 local IDs, 10 full IDs, link sets to depth 3) emits full / compressed / "
                "terse / cached updates, ObjectProperties(Family), KillObject (multi-block, parents, unknown IDs), "
                "re-parenting, local-ID reuse, cross-region moves and teardown through a duplicating/reordering/lossy network "
                "into the real proxy object managers, while an operator issues object requests (some under wait_for "
                "timeouts). An independent scene-graph model applied to the delivered history is compared after every "
                "delivered message with both indices, child/parent/orphan links, handler failures and pending-request "
                "futures (done after kill / creating update / teardown). Precondition (no local ID reuse while live, no "
                "parent cycle) evaluated on the delivered stream; broken runs stop being judged and are counted.",
        "design_ref": "DESIGN.md §4 C14",
        "note": "Trusted: the reference scene-graph model (~120 lines); object message bodies are built with the repo's own "
                "serializer (as its tests do). Seated avatars are modelled as the code and the reference viewer treat "
                "them (exempt from cascading kills); child order not judged. Failing observers (addon object hooks, "
                "object-event subscribers) run alongside in 3 of 5 plans. A torn-down region may be entered again; stragglers "
                "of a region that is gone may name objects living elsewhere (the object then belongs to no region, by the "
                "code's documented design, and is out of the comparisons until a tracked region announces it again).",
    },
    "C15": {
        "text": "Both OS processes of the HTTP side (real SLMITMAddon hooks + callback pump, real MITMProxyEventManager.run) "
                "run in one virtual loop joined by pickling queues with random latency. Flows over the whole URL space "
                "(caps, unknown, Seed, EventQueueGet, uploader, login, FirestormBridge, asset/wrapper, injected, browser) "
                "with valid/empty/malformed bodies and any status meet scripted addons, http_message_handler subscribers "
                "and a logger that ignore, annotate, rewrite, inject, take-and-resume-later, take-then-raise, never "
                "resume, double-resume or raise. Oracle over the recorded queue history: exactly one callback per event "
                "(from the pump call that handled it unless taken, else exactly when the addon resumes, never if it never "
                "does), exactly one mitm-side resume per callback, prompt hand-back, flows complete, routing metadata / "
                "flags / rewritten URL / injected response intact across both crossings. A session may be closed and "
                "garbage-collected while its flows are parked with an addon's worker: release must still hand back. Addons "
                "may pre-empt a flow they released (the answer must cross once, intact, and be applied if it beats the "
                "origin); coroutines wait for a cap's response with wait_for and are sometimes abandoned while subscribed. An "
                "addon may leave a wrongly typed field in the flow that the other side refuses to merge: the flow must "
                "still be released exactly once.",
        "design_ref": "DESIGN.md §4 C15",
        "note": "Trusted: the stub of mitmproxy's protocol core (hook order only). What an addon injects/rewrites on wrapper-cap "
                "or repeated EventQueueGet flows is not judged (the event manager itself re-points those after the hooks).",
    },
    "C16": {
        "text": "Seed requests/responses (repeated grants, overlapping names, same and prefix-related URLs, shared asset caps) "
                "through the real Seed branches, addon actors calling register_proxy_cap (1-3 times) and "
                "register_cap(TEMPORARY), uploader responses minting temporary caps through the real path, lookups by "
                "request (attribution read from the cap metadata that crosses the process boundary) and by name, across "
                "1-2 sessions x 1-3 regions with queue latency. A reference grant model is replayed over the main "
                "process's own order of work; every lookup, Seed upstream body, Seed viewer response (wrapper URLs, "
                "proxy-only URLs), by-name read, temporary consumption and proxy-cap idempotence is checked against it. "
                "Temp-heavy runs keep several one-shot caps of one kind outstanding in one region; the asset service may move "
                "between grants (older wrapper URLs stay valid); regions may be torn down; seed URIs may end in a slash.",
        "design_ref": "DESIGN.md §4 C16",
        "note": "Trusted: the reference grant model. A URL extending several granted URLs may resolve to any of them; plain "
                "asset caps resolve to name+URL only.",
    },
    "C17": {
        "text": "Per-region origin with a numbered event stream (templated incl. EnableSimulator / TeleportFinish / "
                "CrossedRegion, EstablishAgentCommunication, untemplated), fresh ids, LLSD undef and 502/499/500 answers, "
                "never re-sending on a stale ack; viewer poller that re-polls with the stale ack after each lost response; "
                "addons swallowing subsets (or all) of a response or raising; operator injections (inject_event / "
                "inject_message) and region teardown at seeded instants; queue latency. A model replayed over the main "
                "process's order of work predicts the exact body of every poll response (filtering, injection merge, "
                "undef-on-empty, replay from cache without contacting the origin); the viewer-side concatenation and "
                "the session's region list (one entry per announced address) are checked. Addons may inject a replacement "
                "from inside handle_eq_event (accepted in this or the next events-carrying response); a poll the proxy "
                "answers by itself without a previous events-carrying response for that ack is a violation. Announcements may "
                "name a region the viewer already polls (also torn down, also with a fresh seed).",
        "design_ref": "DESIGN.md §4 C17",
        "note": "Trusted: the reference EQ model. Viewer only repeats an ack after a lost response; malformed polls are "
                "C15's alphabet; injections pending at teardown may vanish.",
    },
    "C18": {
        "text": "One proxy with a FilteringMessageLogger (maxlen 4-30) behind a WrappingMessageLogger receives entries from two "
                "producers - real proxied LLUDP traffic and HTTP flows / EQ events - while an operator interleaves "
                "set_filter (generated expression trees to depth 4, incl. globs, Meta.*, enum and Meta right-hand sides and "
                "comparisons that do not fit the field's type), pause, clear, window overflow, export->import, and "
                "re-filtering after entries were frozen and after their session is gone. An independent evaluator over "
                "snapshots taken at log time plus a model of the retention rule decide: match(short_circuit on/off) agree "
                "and equal the evaluator without raising; list(logger) == retained matching entries in arrival order; "
                "export->import and freeze->thaw preserve the message. Filters on Meta.CurrentSelectedLocal change truth "
                "when the operator selects another object; the same filter text may be applied again. Observation happens at "
                "the wrapper every producer logs through (a second window may be attached first); proxy injections renumber "
                "messages after they were logged; after a disconnect the connection's objects are really collected and "
                "everything still retained is thawed.",
        "design_ref": "DESIGN.md §4 C18",
        "note": "Trusted: the independent evaluator's reading of when a comparison applies (stated in the evidence "
                "assumptions). Only the generated grammar subset is exercised.",
    },
}

NOT_APPLICABLE = {
    "C01": "pure function of its input (encode/decode of one message); no schedule, clock, peer, fault or crash point "
           "for a simulator to vary - deterministic simulation does not apply",
    "C03": "pure byte-string function (zero-coding); the size cap is a deterministic input check, not a resource fault",
    "C08": "pure (spec tree, value, endianness, pod) -> bytes -> value; quantifies over programs and inputs only",
    "C09": "pure per-field codecs; the time-zone clause is process configuration, the block cache a single-threaded memo",
    "C10": "finite arithmetic domain; exhaustive enumeration (a different technique) is the decision procedure, "
           "sampling schedules adds nothing",
    "C11": "pure formatter/parser pair on one message; nothing concurrent, timed or faulty in it",
    "C12": "pure codec pairs (LLSD forms); time zone is configuration, not a schedule or fault",
    "C13": "two pure decoders compared on one input; no interleaving, clock or fault dimension",
}


def main():
    checks = []
    for pid, c in sorted(CLAIMED.items()):
        checks.append({
            "property_id": pid,
            "quick_cmd": f"./check {pid} --tier quick",
            "thorough_cmd": f"./check {pid} --tier thorough",
            "evidence_file": f"/verif/evidence/{pid}.json",
            "replay_cmd_template": f"./check {pid} --replay {{path}}",
            "engine": "hsim",
            "level_claimed": {"category": "exploration", "text": c["text"], "design_ref": c["design_ref"]},
            "level_note": c["note"],
            "technique": TECH,
        })
    manifest = {
        "version": 1,
        "setup_cmd": "./setup.sh",
        "hooks": {
            "guard": "HIPPOLYZER_VERIF",
            "enable": "no source hooks exist: every seam (event loop, datagram endpoint, clocks, uuid4, "
                      "multiprocessing queues, addon list) is substituted from outside /repo by the harness; "
                      "checks import hippolyzer straight from /repo's working tree",
            "baseline_off_cmd": "cd /repo && /venv/bin/python -m pytest -ra -q -p no:cacheprovider --timeout=900 "
                                "--continue-on-collection-errors",
            "source_commits": [],
            "add_only": True,
        },
        "engines": [{
            "name": "hsim",
            "path": "/verif/hsim",
            "serves_properties": sorted(CLAIMED),
            "kind_free_text": "deterministic discrete-event simulator for asyncio code: virtual-time BaseEventLoop, "
                              "simulated datagram network / SOCKS stream / cross-process queues with seeded fault "
                              "injection, plan generation + ddmin shrinking + replay files",
        }],
        "checks": checks,
        "notes": "All checks: exit 0 held / 1 VIOLATION (replay file verified in a fresh interpreter) / 2 harness error. "
                 "VERIF_SEED, VERIF_TIER, VERIF_BUDGET_S, VERIF_JOBS honoured. C20 is claimed for its transfer clause only "
                 "(codec clause is a pure function). Fixed defects and known findings: known_findings.json.",
        "not_applicable": [{"property_id": k, "reason": v} for k, v in sorted(NOT_APPLICABLE.items())],
    }
    with open(os.path.join(HERE, "MANIFEST.json"), "w") as f:
        json.dump(manifest, f, indent=1)
        f.write("\n")


if __name__ == "__main__":
    main()

#!/usr/bin/env python3
"""Regenerates hsim/selftest/mutants/<prop>/*.patch from the substitution table below.

(Dropped as equivalent after analysis: C04 `<`->`<=` in get_effective_id and `>`->`>=` in get_original_id (the extra
case cannot occur), C02 parse-on-invalidate_caches (re-encoding is byte-identical), C06 unknown host mapped to the first
viewer (the LLUDP layer still finds no circuit for it).)

Each mutant is one small, realistic change to /repo (HEAD) that compiles; `--verify` additionally runs
the repo's own test suite against each and reports the ones the suite already catches (those are
dropped: a mutant the existing tests kill says nothing about what the simulation adds).
"""
import os
import shutil
import subprocess
import sys
import tempfile

HERE = os.path.dirname(os.path.dirname(os.path.abspath(__file__)))
OUT = os.path.join(HERE, "hsim", "selftest", "mutants")
P = "hippolyzer/lib/"

M = [
    # ---- C04 ----
    ("C04", "inject-not-tracked", P + "proxy/circuit.py", "        self.injections.append(new_id)\n        self.track_seen(new_id)",
     "        self.injections.append(new_id)"),
    ("C04", "back-break", P + "proxy/circuit.py", "            if packet_id > new_id:\n                continue",
     "            if packet_id > new_id:\n                break"),
    ("C04", "no-base-carry", P + "proxy/circuit.py", "            self._injection_base += 1\n", "            pass\n"),
    # ---- C05 ----
    ("C05", "collect-acks-same-direction", P + "base/message/circuit.py",
     "self.unacked_reliable.pop((~message.direction, ack), None)", "self.unacked_reliable.pop((message.direction, ack), None)"),
    ("C05", "budget-off-by-one", P + "base/message/circuit.py", "            if not resend_info.tries_left:",
     "            if resend_info.tries_left < 0:"),
    ("C05", "resend-no-timestamp", P + "base/message/circuit.py",
     "            resend_info.last_resent = dt.datetime.now()\n", ""),
    ("C05", "acks-for-injected-forwarded", P + "proxy/circuit.py",
     "                reverse_injections.get_original_id(x) for x in message.acks\n                if not reverse_injections.was_injected(x)\n            )\n\n            if message.name",
     "                reverse_injections.get_original_id(x) if not reverse_injections.was_injected(x) else x\n                for x in message.acks\n            )\n\n            if message.name"),
    ("C05", "drop-acks-not-forwarded", P + "proxy/circuit.py",
     "        if effective_acks:\n            self.send_acks(effective_acks, message.direction, packet_id=message.packet_id)",
     "        if effective_acks and message.reliable:\n            self.send_acks(effective_acks, message.direction, packet_id=message.packet_id)"),
    ("C05", "packetack-leak", P + "proxy/circuit.py",
     "                    message[\"Packets\"] = [Block(\"Packets\", ID=x) for x in message.acks]\n                    message.acks = tuple()\n",
     "                    pass\n"),
    ("C05", "completed-on-resend", P + "base/message/circuit.py",
     "            msg.send_flags |= PacketFlags.RESENT\n            self._send_prepared_message(msg)",
     "            msg.send_flags |= PacketFlags.RESENT\n            self._send_prepared_message(msg)\n            if resend_info.tries_left == 5 and not resend_info.completed.done():\n                resend_info.completed.set_result(None)"),
    # ---- C06 ----
    ("C06", "socks-frag-accepted", P + "proxy/socks_proxy.py", "        if rsv != 0 or frag != 0:", "        if rsv != 0:"),
    ("C06", "ban-applied-outbound", P + "proxy/lludp_proxy.py", "        if packet.incoming:\n            self._ensure_message_allowed(message)",
     "        if packet.outgoing:\n            self._ensure_message_allowed(message)"),
    ("C06", "region-lookup-ignores-port", P + "client/state.py",
     "            if region.circuit_addr == circuit_addr and region.circuit:",
     "            if region.circuit_addr[0] == circuit_addr[0] and region.circuit:"),
    ("C06", "claim-any-pending-session", P + "proxy/sessions.py", "            if session.pending and session.id == session_id:",
     "            if session.pending:"),
    ("C06", "learn-only-first-far", P + "proxy/socks_proxy.py",
     "                self.far_to_near_map[remote_addr] = source_addr",
     "                if not self.far_to_near_map:\n                    self.far_to_near_map[remote_addr] = source_addr"),
    # ---- C02 ----
    ("C02", "rstrip-nuls", P + "base/message/udpdeserializer.py",
     "            if unpacked_data.endswith(b\"\\x00\") and not unpacked_data.endswith(b\"\\x00\\x00\"):\n                try:\n                    return unpacked_data[:-1].decode(\"utf8\")",
     "            if unpacked_data.endswith(b\"\\x00\"):\n                try:\n                    return unpacked_data.decode(\"utf8\").rstrip(\"\\x00\")"),
    ("C02", "raw-body-not-restored", P + "base/message/udpdeserializer.py",
     "            msg.blocks = {}\n            msg.raw_body = raw_body\n            msg.deserializer = weakref.ref(self)\n            raise",
     "            raise"),
    ("C02", "trailing-dropped", P + "base/message/udpserializer.py", "            body_writer.write_bytes(msg.raw_trailing)\n", ""),
    ("C02", "decode-without-terminator", P + "base/message/udpdeserializer.py",
     "            if unpacked_data.endswith(b\"\\x00\") and not unpacked_data.endswith(b\"\\x00\\x00\"):\n                try:\n                    return unpacked_data[:-1].decode(\"utf8\")",
     "            if not unpacked_data.endswith(b\"\\x00\\x00\"):\n                try:\n                    return unpacked_data.rstrip(b\"\\x00\").decode(\"utf8\")"),
    # ---- C07 ----
    ("C07", "no-short-circuit", P + "proxy/addons.py",
     "        for module in cls.FRESH_ADDON_MODULES.values():\n            if not module:\n                continue\n            ret = cls._call_module_hooks(module, hook_name, *args, call_async=call_async, **kwargs)\n            if ret:\n                return ret\n\n        return None",
     "        final = None\n        for module in cls.FRESH_ADDON_MODULES.values():\n            if not module:\n                continue\n            ret = cls._call_module_hooks(module, hook_name, *args, call_async=call_async, **kwargs)\n            final = final or ret\n\n        return final"
     ),
    ("C07", "double-drop", P + "proxy/lludp_proxy.py", "        if message.queued and not message.finalized:", "        if message.queued:"),
    ("C07", "take-does-not-queue", P + "base/message/message.py", "        if not self.finalized:\n            self.queued = True",
     "        if not self.finalized and self.reliable:\n            self.queued = True"),
    ("C07", "send-original-of-queued-allowed", P + "proxy/circuit.py",
     "        if message.queued:\n            # This is due to be dropped, nothing should be sending the original\n            raise RuntimeError(f\"Trying to send original of queued {message!r}\")\n",
     ""),
    ("C07", "handler-exception-propagates", P + "base/events.py",
     "                except:\n                    # One handler failing shouldn't prevent notification of other handlers.\n                    LOG.exception(f\"Failed in handler for {self.name}\")",
     "                except KeyError:\n                    # One handler failing shouldn't prevent notification of other handlers.\n                    LOG.exception(f\"Failed in handler for {self.name}\")"),
    ("C07", "logging-skipped-when-handled", P + "proxy/lludp_proxy.py",
     "        if message_logger:\n            message_logger.log_lludp_message(self.session, region, message)\n\n        if handled:\n            return",
     "        if handled:\n            return\n\n        if message_logger:\n            message_logger.log_lludp_message(self.session, region, message)"),
    ("C07", "rlv-exception-escapes", P + "proxy/addons.py",
     "                    except:\n                        LOG.exception(f\"Failed while handling command {command!r}\")\n                        all_cmds_handled = False\n                        if not cls._SWALLOW_ADDON_EXCEPTIONS:\n                            raise",
     "                    except:\n                        LOG.exception(f\"Failed while handling command {command!r}\")\n                        all_cmds_handled = False\n                        raise"),
    # ---- C14 ----
    ("C14", "cancel-break", P + "client/object_manager.py",
     "                for fut in futs:\n                    fut.cancel()\n\n\nclass LocationType",
     "                for fut in futs:\n                    fut.cancel()\n                break\n\n\nclass LocationType"),
    ("C14", "resolve-done-futures", P + "client/object_manager.py", "            if not fut.done():\n                fut.set_result(obj)",
     "            fut.set_result(obj)"),
    ("C14", "orphans-survive-unknown-kill", P + "client/object_manager.py",
     "            child_ids = region_state.collect_orphans(local_id)", "            child_ids = []"),
    ("C14", "children-not-orphaned-on-untrack", P + "client/object_manager.py",
     "        for child_id in former_child_ids:\n            self._track_orphan(child_id, obj.LocalID)\n", ""),
    ("C14", "reparent-not-relinked", P + "client/object_manager.py",
     "            new_region_state.handle_object_reparented(obj, old_parent_id=old_parent_id)",
     "            if new_parent_id:\n                new_region_state.handle_object_reparented(obj, old_parent_id=old_parent_id)"),
    ("C14", "teardown-keeps-futures", P + "client/object_manager.py",
     "        for fut in tuple(itertools.chain(*self._object_futures.values())):\n            fut.cancel()\n", ""),
    ("C14", "kill-leaves-fullid", P + "client/object_manager.py",
     "            self._fullid_lookup.pop(obj.FullID, None)\n            if obj.PCode == PCode.AVATAR:",
     "            if not obj.ParentID:\n                self._fullid_lookup.pop(obj.FullID, None)\n            if obj.PCode == PCode.AVATAR:"),
    # ---- C15 ----
    ("C15", "no-finally", P + "proxy/http_event_manager.py",
     "        finally:\n            # If someone has taken this request out of the regular callback flow,\n            # they'll manually send a callback at some later time.\n            if not flow.taken and not flow.resumed:",
     "        except AssertionError:\n            raise\n        else:\n            # If someone has taken this request out of the regular callback flow,\n            # they'll manually send a callback at some later time.\n            if not flow.taken and not flow.resumed:"),
    ("C15", "capdata-region-by-handle", P + "proxy/caps.py",
     "            region_addr=str(self.region().circuit_addr) if self.region and self.region() else None,",
     "            region_addr=str(self.region().handle) if self.region and self.region() else None,"),
    ("C15", "browser-injected-trusted", P + "proxy/http_proxy.py", "        if was_injected == \"1\" and not from_browser:",
     "        if was_injected == \"1\":"),
    ("C15", "resume-keeps-old-state", P + "proxy/http_flow.py",
     "        self.callback_queue().put((\"callback\", self.flow.id, self.get_state()))\n\n    def preempt",
     "        state = self.get_state()\n        state[\"metadata\"] = {k: v for k, v in state[\"metadata\"].items() if not k.startswith(\"hsim_meta\")}\n        self.callback_queue().put((\"callback\", self.flow.id, state))\n\n    def preempt"),
    ("C15", "login-failure-not-resumed", P + "proxy/http_event_manager.py",
     "        if cap_data.cap_name == \"LoginRequest\":\n            self._handle_login_flow(flow)\n            return",
     "        if cap_data.cap_name == \"LoginRequest\":\n            flow.taken = True\n            self._handle_login_flow(flow)\n            flow.taken = False\n            return"),
    ("C06", "main-region-before-handle", P + "proxy/lludp_proxy.py",
     "            if region.handle is None:\n                region.handle = message[\"Data\"][\"RegionHandle\"]\n            self.session.main_region = region\n",
     "            self.session.main_region = region\n            if region.handle is None:\n                region.handle = message[\"Data\"][\"RegionHandle\"]\n"),
    ("C14", "regionless-never-picked-up", P + "client/object_manager.py",
     "        changed_region = old_region_handle != new_region_handle or old_region_state is None\n",
     "        changed_region = old_region_handle != new_region_handle\n"),
    ("C14", "regionless-untracked-from-region-that-never-had-it", P + "client/object_manager.py",
     "        if old_region_state is not None and old_region_state.lookup_localid(old_local_id) is not obj:\n",
     "        if old_region_state is not None and False:\n"),
    ("C19", "banned-refused-before-acks-collected", P + "client/hippo_client.py",
     "        region.circuit.collect_acks(message)\n\n        should_handle = True\n",
     "        if not self.message_xml.validate_udp_msg(message.name):\n            raise PermissionError(f\"UDPBanned message {message.name}\")\n        region.circuit.collect_acks(message)\n\n        should_handle = True\n"),
    # ---- C16 ----
    ("C16", "caps-append", P + "proxy/region.py", "        vals = [value] + self.popall(key, [])", "        vals = self.popall(key, []) + [value]"),
    ("C16", "temporary-not-consumed", P + "proxy/region.py", "                if cap_type == CapType.TEMPORARY and consume:",
     "                if cap_type == CapType.TEMPORARY and consume and False:"),
    ("C16", "proxy-caps-sent-upstream", P + "proxy/http_event_manager.py",
     "                    parsed_seed = [name for name in parsed_seed if name != known_cap_name]\n", ""),
    ("C16", "proxy-cap-first-occurrence-only", P + "proxy/http_event_manager.py",
     "                    parsed_seed = [name for name in parsed_seed if name != known_cap_name]\n",
     "                    parsed_seed.remove(known_cap_name)\n"),
    ("C16", "proxy-cap-new-url", P + "proxy/region.py", "            if cap_type == CapType.PROXY_ONLY:\n                return cap_url",
     "            if cap_type == CapType.PROXY_ONLY and cap_url is None:\n                return cap_url"),
    ("C16", "asset-caps-attributed", P + "proxy/sessions.py",
     "                if is_asset_server_cap_name(cap_name) and cap_type != CapType.WRAPPER:",
     "                if is_asset_server_cap_name(cap_name) and cap_type == CapType.TEMPORARY:"),
    ("C16", "wrapper-not-in-seed-response", P + "proxy/http_event_manager.py",
     "                        parsed[cap_name] = region.register_wrapper_cap(cap_name)",
     "                        region.register_wrapper_cap(cap_name)"),
    ("C16", "first-session-wins", P + "proxy/sessions.py",
     "        for session in self.sessions:\n            cap_data = session.resolve_cap(url)\n            if cap_data:\n                return cap_data\n        return CapData()",
     "        for session in self.sessions:\n            cap_data = session.resolve_cap(url)\n            if cap_data:\n                return cap_data\n            break\n        return CapData()"),
    # ---- C17 ----
    ("C17", "no-replay", P + "proxy/region.py", "        if self._last_ack == req_ack:\n            return self._last_payload",
     "        if self._last_ack == req_ack and req_ack is None:\n            return self._last_payload"),
    ("C17", "injected-not-cleared", P + "proxy/region.py", "        events = self._queued_events\n        self._queued_events = []\n        return events",
     "        events = list(self._queued_events)\n        if len(events) > 1:\n            self._queued_events = []\n        return events"),
    ("C17", "undef-when-empty", P + "proxy/http_event_manager.py", "                    if old_events and not new_events:",
     "                    if not new_events:"),
    ("C17", "register-before-swallow", P + "proxy/http_event_manager.py",
     "        handle_event = AddonManager.handle_eq_event(session, region, event)\n        if handle_event is True:\n            # Addon handled the event and didn't want it sent to the viewer\n            return True\n",
     "        handle_event = AddonManager.handle_eq_event(session, region, event)\n"),
    ("C17", "cache-before-injection", P + "proxy/http_event_manager.py",
     "                    eq_manager.cache_last_poll_response(req_ack_id, parsed_eq_resp)",
     "                    eq_manager.cache_last_poll_response(req_ack_id, None if parsed_eq_resp is None else {**parsed_eq_resp, \"events\": [e for e in old_events if e in new_events]})"),
    ("C17", "swallow-reorders", P + "proxy/http_event_manager.py",
     "                    new_events.extend(eq_manager.take_injected_events())",
     "                    new_events = eq_manager.take_injected_events() + new_events"),
    # ---- C18 ----
    ("C18", "or-short-circuit-wrong", P + "proxy/message_filter.py",
     "        if right_match and short_circuit:\n            return MatchResult(True, right_match.fields)",
     "        if short_circuit:\n            return MatchResult(False, [])"),
    ("C18", "set-filter-drops-aged-out", P + "proxy/message_logger.py",
     "            m for m in self._filtered_entries if\n            m not in self._raw_entries and self._filter_matches(m)\n        ]",
     "            m for m in self._filtered_entries if\n            m not in self._raw_entries and m in self._raw_entries\n        ]"),
    ("C18", "filter-before-store", P + "proxy/message_logger.py",
     "            self._raw_entries.append(entry)\n            if self.filter.match(entry):",
     "            if self.filter.match(entry):\n                self._raw_entries.append(entry)"),
    ("C18", "root-match-name-only", P + "proxy/message_logger.py",
     "        if fnmatch.fnmatchcase(self.type, pattern):\n            return True\n        return False",
     "        return False"),
    ("C18", "tuplecoord-ne", P + "base/datatypes.py",
     "    def __ne__(self, other):\n        # The recordclass base has its own `__ne__` that doesn't know about our `__eq__`\n        return not self.__eq__(other)\n\n",
     ""),
    ("C18", "mismatch-raises", P + "proxy/message_logger.py", "        except (TypeError, AttributeError):\n            # The operator can't",
     "        except (TypeError,):\n            # The operator can't"),
    ("C18", "and-evaluates-or", P + "proxy/message_filter.py",
     "        if not left_match:\n            return MatchResult(False, [])\n        right_match = self.right_node.match(msg, short_circuit)\n        if not right_match:\n            return MatchResult(False, [])",
     "        if not left_match and short_circuit:\n            return MatchResult(False, [])\n        right_match = self.right_node.match(msg, short_circuit)\n        if not right_match:\n            return MatchResult(False, [])"),
    ("C18", "clear-keeps-raw", P + "proxy/message_logger.py",
     "        self._filtered_entries.clear()\n        self._raw_entries.clear()", "        self._filtered_entries.clear()"),
    ("C18", "freeze-drops-flags", P + "proxy/message_logger.py",
     "            self._frozen_message = pickle.dumps(self._message, protocol=pickle.HIGHEST_PROTOCOL)",
     "            self._message.send_flags &= ~0x40\n            self._frozen_message = pickle.dumps(self._message, protocol=pickle.HIGHEST_PROTOCOL)"),
    # ---- C19 ----
    ("C19", "region-subscribers-see-resends", P + "client/hippo_client.py",
     "        if should_handle:\n            region.message_handler.handle(message)", "        region.message_handler.handle(message)"),
    ("C19", "ack-only-new", P + "client/hippo_client.py",
     "            region.circuit.send_acks((message.packet_id,))\n            should_handle = region.circuit.track_reliable(message.packet_id)",
     "            should_handle = region.circuit.track_reliable(message.packet_id)\n            if should_handle:\n                region.circuit.send_acks((message.packet_id,))"),
    ("C19", "packetack-blocks-ignored", P + "base/message/circuit.py",
     "        if message.name == \"PacketAck\":\n            effective_acks.extend(x[\"ID\"] for x in message[\"Packets\"])",
     "        if message.name == \"PacketAck\" and not effective_acks:\n            effective_acks.extend(x[\"ID\"] for x in message[\"Packets\"][:1])"),
    ("C19", "unreliable-deduped", P + "client/hippo_client.py", "        if message.reliable:\n            # This is a bit crap.",
     "        if message.reliable or message.resent:\n            # This is a bit crap."),
    ("C19", "ids-reused-after-ack", P + "base/message/circuit.py",
     "            if resend_info and not resend_info.completed.done():\n                resend_info.completed.set_result(None)",
     "            if resend_info and not resend_info.completed.done():\n                resend_info.completed.set_result(None)\n                if not self.unacked_reliable and ack + 1 == self.packet_id_base and ack >= 2:\n                    self.packet_id_base = ack"),
    ("C19", "future-resolved-on-any-ack", P + "base/message/circuit.py",
     "            resend_info = self.unacked_reliable.pop((~message.direction, ack), None)",
     "            resend_info = self.unacked_reliable.pop((~message.direction, ack), None) or (\n                self.unacked_reliable.pop((~message.direction, ack + 1), None) if message.name == \"PacketAck\" else None)"),
    ("C19", "dedupe-window-100", P + "base/message/circuit.py", "deque(maxlen=1_000)", "deque(maxlen=100)"),
    ("C14", "avatar-orphan-dropped-on-kill-of-unknown-seat", P + "client/object_manager.py",
     "                if not obj:\n                    # collect_orphans() took it out of the orphanage but it's still waiting\n                    # for this parent to show up, put it back.\n                    region_state._track_orphan(child_id, local_id)\n                continue",
     "                continue"),
    ("C02", "zero-expand-limit-silently-truncates", P + "base/message/udpdeserializer.py",
     "                raise ValueError(\"Unreasonably large zerocoded message\")", "                break"),
    ("C07", "object-hooks-not-isolated", P + "proxy/addons.py",
     "            return cls._call_all_addon_hooks(\"handle_object_updated\", session, region, obj, updated_props, msg)",
     "            for addon in cls._get_all_addon_objects():\n                hook = getattr(addon, \"handle_object_updated\", None)\n                if hook and hook(session, region, obj, updated_props, msg):\n                    return True\n            return None"),
    ("C07", "object-kill-hooks-stop-at-first-failure", P + "proxy/addons.py",
     "            return cls._call_all_addon_hooks(\"handle_object_killed\", session, region, obj)",
     "            try:\n                for addon in cls._get_all_addon_objects():\n                    hook = getattr(addon, \"handle_object_killed\", None)\n                    if hook and hook(session, region, obj):\n                        return True\n            except Exception:\n                LOG.exception(\"object kill hook failed\")\n            return None"),
    ("C07", "predicate-failure-aborts-notify", P + "base/events.py",
     "            try:\n                if predicate and not predicate(args):\n                    continue\n            except:\n                # A failing predicate shouldn't prevent notification of other handlers either.\n                LOG.exception(f\"Failed in predicate for {self.name}\")\n                continue\n",
     "            if predicate and not predicate(args):\n                continue\n"),
    ("C07", "coroutine-subscriber-late-binding", P + "base/events.py",
     "                async def _run_handler_wrapper(handler=handler, inner_args=inner_args, kwargs=kwargs):",
     "                async def _run_handler_wrapper():"),
    ("C05", "ack-for-abandoned-send-raises", P + "base/message/circuit.py",
     "            if resend_info and not resend_info.completed.done():\n                resend_info.completed.set_result(None)",
     "            if resend_info:\n                resend_info.completed.set_result(None)"),
    ("C05", "unencodable-reliable-stays-queued", P + "base/message/circuit.py",
     "                self.unacked_reliable.pop((message.direction, message.packet_id), None)\n                raise",
     "                raise"),
    ("C16", "slash-seed-wrapper-host", P + "proxy/region.py",
     "self.caps[\"Seed\"][1].rstrip(\"/\").split(\"/\")[-1]", "self.caps[\"Seed\"][1].split(\"/\")[-1]"),
    ("C18", "frozen-entry-weak-deserializer", P + "proxy/message_logger.py",
     "        self._deserializer = deserializer_ref() if deserializer_ref is not None else None\n",
     "        self._deserializer = None\n"),
    ("C19", "resend-skips-not-alive", P + "client/hippo_client.py",
     "                region.circuit.resend_unacked()",
     "                if not region.circuit.is_alive:\n                    continue\n                region.circuit.resend_unacked()"),
    ("C06", "handleless-region-tracked", P + "proxy/lludp_proxy.py",
     "            if region.handle is not None:\n                self.session.objects.track_region_objects(region.handle)",
     "            self.session.objects.track_region_objects(region.handle)"),
    ("C18", "set-filter-not-exception-safe", P + "proxy/message_logger.py",
     "            m not in self._raw_entries and self._filter_matches(m)\n        ]\n        self._filtered_entries.extend((m for m in self._raw_entries if self._filter_matches(m)))",
     "            m not in self._raw_entries and self.filter.match(m)\n        ]\n        self._filtered_entries.extend((m for m in self._raw_entries if self.filter.match(m)))"),
    ("C07", "bare-rlv-marker-swallowed", P + "proxy/addons.py",
     "                all_cmds_handled = bool(commands)", "                all_cmds_handled = True"),
    ("C06", "non-utf8-chat-typeerror", P + "client/rlv.py",
     "        if not isinstance(chat, str):\n            return False\n", ""),
    ("C06", "self-addressed-socks-learnt", P + "proxy/socks_proxy.py",
     "                if remote_addr == source_addr:", "                if False and remote_addr == source_addr:"),
    # ---- C20 ----
    ("C20", "transfer-done-on-done-packet", P + "base/transfer_manager.py",
     "        if not transfer.done() and len(transfer.chunks) == transfer.expected_chunks:",
     "        if not transfer.done() and transfer.expected_chunks is not None:"),
    ("C20", "xfer-done-on-eof", P + "base/xfer_manager.py",
     "        if not xfer.done() and len(xfer.chunks) == xfer.expected_chunks:",
     "        if not xfer.done() and xfer.expected_chunks is not None and len(xfer.chunks) >= xfer.expected_chunks - 1:"),
    ("C20", "reassemble-arrival-order", P + "base/transfer_manager.py",
     "        for _, data in sorted(self.chunks.items()):", "        for _, data in self.chunks.items():"),
    ("C20", "xfer-length-prefix-kept-on-resend", P + "base/xfer_manager.py",
     "            if not xfer.size_known.done():\n                xfer.size_known.set_result(xfer.expected_size)\n            packet_data = packet_data[4:]",
     "            if not xfer.size_known.done():\n                xfer.size_known.set_result(xfer.expected_size)\n                packet_data = packet_data[4:]"),
    ("C20", "upload-last-chunk-not-eof", P + "base/xfer_manager.py",
     "            packet_val = XferPacket(PacketID=packet_id, IsEOF=not bool(xfer.chunks))",
     "            packet_val = XferPacket(PacketID=packet_id, IsEOF=not bool(xfer.chunks) and packet_id > 0)"),
    ("C20", "timeout-completes", P + "base/transfer_manager.py",
     "                except TimeoutError as e:\n                    transfer.set_exception(e)\n                    return",
     "                except TimeoutError as e:\n                    if transfer.chunks:\n                        transfer.mark_done()\n                    else:\n                        transfer.set_exception(e)\n                    return"),
]


def main():
    verify = "--verify" in sys.argv
    repo = os.environ.get("VERIF_REPO", "/repo")
    scratch = tempfile.mkdtemp(prefix="hsim-mkmut-", dir="/tmp")
    dst = os.path.join(scratch, "repo")
    subprocess.run(["git", "-C", repo, "worktree", "add", "-q", "--detach", dst, "HEAD"], check=True)
    made = 0
    try:
        if os.path.isdir(OUT):
            shutil.rmtree(OUT)
        for prop, name, path, old, new in M:
            full = os.path.join(dst, path)
            src = open(full).read()
            if src.count(old) != 1:
                print(f"SKIP {prop}/{name}: pattern occurs {src.count(old)} times in {path}")
                continue
            open(full, "w").write(src.replace(old, new))
            diff = subprocess.run(["git", "-C", dst, "diff"], capture_output=True, text=True).stdout
            ok = subprocess.run([sys.executable, "-m", "py_compile", full], capture_output=True).returncode == 0
            caught = False
            why = ""
            if ok and verify:
                t = subprocess.run(["/venv/bin/python", "-m", "pytest", "-q", "-x", "-p", "no:cacheprovider", "-n", "8", "--timeout=60",
                                    "--deselect", "tests/proxy/integration/test_http.py::TestMITMProxy::test_mitmproxy_works"],
                                   cwd=dst, capture_output=True, text=True, timeout=600)
                caught = t.returncode != 0
                why = ""
                if caught:
                    # confirm serially (a loaded machine makes the parallel run flaky) and name the killing test
                    t = subprocess.run(["/venv/bin/python", "-m", "pytest", "-q", "-x", "-p", "no:cacheprovider", "--timeout=60",
                                        "--deselect", "tests/proxy/integration/test_http.py::TestMITMProxy::test_mitmproxy_works"],
                                       cwd=dst, capture_output=True, text=True, timeout=900)
                    caught = t.returncode != 0
                    why = next((l for l in t.stdout.splitlines() if l.startswith("FAILED")), "")[:140]
            subprocess.run(["git", "-C", dst, "checkout", "--", "."], check=True)
            if not ok:
                print(f"SKIP {prop}/{name}: does not compile")
                continue
            if caught:
                print(f"SKIP {prop}/{name}: killed by the repo's own tests ({why})")
                continue
            d = os.path.join(OUT, prop)
            os.makedirs(d, exist_ok=True)
            open(os.path.join(d, name + ".patch"), "w").write(diff)
            made += 1
            print(f"ok   {prop}/{name}")
    finally:
        subprocess.run(["git", "-C", repo, "worktree", "remove", "--force", dst], capture_output=True)
        shutil.rmtree(scratch, ignore_errors=True)
        subprocess.run(["git", "-C", repo, "worktree", "prune"], capture_output=True)
    print(f"{made} mutants written to {OUT}")


if __name__ == "__main__":
    main()

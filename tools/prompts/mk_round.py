import json, subprocess, sys, os
ROUND = sys.argv[1]
TAKEN = {
 "C02": ["zero-code expansion placement vs. the restore-on-failed-parse guard (two variants)", "deserializer remembering the last parsed header's template for lazy body parses", "NUL stripping of text fields", "dropping bytes after the last template block", "serializer reusing one body buffer that is not cleared after a failed encode", "Message.take() making a shallow copy of an unparsed message (shared block dict)", "zero_code_compress emitting 00 00 for runs of exactly 255*k zeros"],
 "C04": ["get_original_id fast path forgetting the injection base after window eviction", "RESENT packets not passed to track_seen (two variants)", "break/continue in the back-translation loop", "track_seen losing its only-raise guard so an older ID lowers the highest-seen mark", "get_effective_id memoising translations that go stale after an injection", "off-by-one shortcut in get_effective_id for the packet directly before the newest injection"],
 "C05": ["appended-ack translation ordered after the PacketAck body rewrite", "resend loop breaking at the first not-yet-due entry", "filtering acks against the `dropped` list in the wrong ID space", "resend deadline advanced by the interval instead of reset to now (burst after a stall)", "resend timer of a new injection started from last_packet_at instead of now", "collect_acks ignoring RESENT messages"],
 "C06": ["failed-parse handler wiping the restored raw body", "untrack_region_objects raising KeyError on an untracked handle (two variants)", "SOCKS frag/rsv validation", "ban applied in the wrong direction", "open_circuit returning False for an already-live circuit (retransmitted UseCircuitCode dropped)", "pruning not-alive regions from session.regions on another region's teardown", "dropping datagrams whose packet ID is more than the tracker window below the highest seen"],
 "C07": ["take() not clearing `queued` on the copy", "subscribe_async not unsubscribing on abnormal exit", "prepare_message refusing packets whose ID is in `dropped`", "wait_for handler acting after its future is done", "double drop of a taken message", "merging the try/except around session-level and region-level handler dispatch", "Event.notify aborted by a raising predicate", "Event.notify iterating the live subscriber list instead of a snapshot", "FILE_MTIMES.pop without default in the failed addon reload path", "coroutine subscribers run with late-bound loop variables"],
 "C14": ["_untrack_orphan dropping the whole sibling list", "track_object adopting orphans only if the ID was in missing_locals", "avatar orphans around _kill_object_by_local_id / collect_orphans", "futures not cancelled / re-resolved", "re-announcement under a new local ID parenting the object twice", "untrack_object merging its child loops so surviving children are not recorded as orphans", "RegionObjectsState.clear() not emptying the orphan list"],
 "C15": ["finally replaced by except that resumes without checking `taken`", "CapData.deserialize matching only regions with a circuit (two variants)", "orig_flow hoisted out of the proxy-side pump loop so the finally re-resumes the previous flow", "CapData.serialize raising on dead session/region weakrefs", "resume() no longer resetting taken so a later preempt() asserts"],
 "C16": ["update_caps skipping a grant identical to an existing entry", "CapData.deserialize looking the region address up across all sessions", "temporary-cap consumption re-adding survivors in reversed order", "register_proxy_cap idempotence", "session-level resolve_cap consuming a temporary cap through a stale loop variable (wrong region)", "removing proxy-only names from the Seed request list while iterating over it", "register_wrapper_cap popping earlier wrapper entries"],
 "C17": ["get_cached_poll_response returning None while _last_ack is None", "EventQueueManager state moved to class attributes", "clear() not resetting the replay cache across region teardown", "replay cache filled before the emptied-response-to-undef conversion", "injected events snapshotted before the hooks run, whole queue dropped afterwards", "register_region skipping regions whose circuit is closed (duplicate registration)"],
 "C18": ["id()-keyed cache of the last thawed message (two variants)", "add_log_entry ignoring `paused`", "operator semantics (&, !=, >=) in the filter evaluator", "aged-out bookkeeping counter not reset by clear()", "set_filter returning early when the filter text is unchanged", "WrappingMessageLogger.add_log_entry short-circuiting with any()"],
 "C19": ["collect_acks placed below the duplicate early-return (two variants)", "companion set for the dedupe window evicting the wrong ID", "region-level subscribers not guarded against resends", "collect_acks returning instead of continuing at the first non-pending ID", "Circuit.disconnect no longer clearing the unacked table", "track_reliable fast path assuming the dedupe window is sorted"],
 "C20": ["length-prefix strip guarded by size_known", "Xfer inactivity timeout turned into a total deadline", "turbo-Xfer ACK loop variable shadowing the packet number", "Transfer completing on the DONE packet alone", "Transfer.reassemble_chunks joining chunks in arrival order", "Transfer completion check skipped until size_known resolves", "upload chunk offsets computed from the length before the 4-byte prefix"],
}
tmpl = open("PROMPT.tmpl").read()
props = {json.loads(l)["id"]: json.loads(l) for l in open("/verif/properties.jsonl")}
for pid in TAKEN:
    label = f"{pid}-{ROUND}"
    wt, out = f"/tmp/seed/{label}", f"/tmp/seed/{label}.out"
    subprocess.run(["git", "-C", "/repo", "worktree", "remove", "--force", wt], capture_output=True)
    subprocess.run(["git", "-C", "/repo", "worktree", "add", "-q", "--detach", wt, "HEAD"], check=True)
    os.makedirs(out, exist_ok=True)
    prop = json.dumps(props[pid], indent=1)
    extra = ("\n\nADDITIONAL GUIDANCE FOR THIS ROUND: earlier rounds already produced changes built on these mechanisms for this "
             "property, so do NOT reuse them - find a DIFFERENT mechanism, in a different function if you can:\n- "
             + "\n- ".join(TAKEN[pid]) +
             "\nRead the anchored files (and what they call) fully before choosing. Prefer a change whose effect depends on "
             "TIMING, ORDER or a FAULT (a timer firing between two steps, a retransmission, a lost or duplicated datagram / response, "
             "a teardown or reconnect while something is pending, two sessions / regions / transfers alive at once, a value at the "
             "edge of a window or limit) rather than on one odd input value; or one that silently corrupts bookkeeping now and only "
             "shows several operations later. Two cooperating edits that each look harmless are welcome. The change must still look "
             "like an honest mistake, keep the existing suite green, and need something specific to manifest.")
    p = tmpl.replace("{PROP}", prop + extra).replace("{WT}", wt).replace("{OUT}", out).replace("{ID}", pid).replace("{{", "{").replace("}}", "}")
    open(f"/tmp/seed/{label}.prompt", "w").write(p)
    print(label)

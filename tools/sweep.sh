#!/bin/bash
# usage: tools/sweep.sh <budget_s> <seed>...   -- runs every claimed check for each seed, prints alarms only
B=$1; shift
cd "$(dirname "$0")/.."
for seed in "$@"; do
  for p in C02 C04 C05 C06 C07 C14 C15 C16 C17 C18 C19 C20; do
    out=$(VERIF_SEED=$seed ./check $p --tier thorough --budget $B 2>&1)
    rc=$?
    echo "seed=$seed $p rc=$rc $(echo "$out" | grep -E '^C[0-9]+ tier' | sed -E 's/distinct.*//')"
    echo "$out" | grep -E "^(violation|VIOLATION|HARNESS|KNOWN)" | cut -c1-700
  done
done

#!/bin/bash
# usage: tools/verify_seed.sh <PROP> <label> <dir with patch.diff demo.py notes.json> [budget_s]
# Confirms a sub-agent's seeded change in a scratch worktree (outside /repo and /verif):
#   suite passes with the change, demo fails with it and passes without; then runs the property's
#   check against it via VERIF_REPO. Prints a one-line verdict per step. Removes the worktree.
PROP=$1; LABEL=$2; SRC=$3; BUDGET=${4:-40}
VERIF="$(cd "$(dirname "$0")/.." && pwd)"
WT=/tmp/scratch/seedv-$LABEL
mkdir -p /tmp/scratch
git -C /repo worktree remove --force $WT >/dev/null 2>&1
git -C /repo worktree add -q --detach $WT HEAD || exit 2
cleanup() { git -C /repo worktree remove --force $WT >/dev/null 2>&1; git -C /repo worktree prune; }
trap cleanup EXIT
cd $WT
# demo without the change
PYTHONPATH=$WT PYTHONWARNINGS=ignore timeout 300 /venv/bin/python $SRC/demo.py >/tmp/scratch/demo-$LABEL-without.log 2>&1; D0=$?
git apply $SRC/patch.diff || { echo "SEED $LABEL: patch does not apply"; exit 2; }
PYTHONPATH=$WT PYTHONWARNINGS=ignore timeout 300 /venv/bin/python $SRC/demo.py >/tmp/scratch/demo-$LABEL-with.log 2>&1; D1=$?
timeout 900 /venv/bin/python -m pytest -q -p no:cacheprovider --timeout=120 -n 3 \
  --deselect tests/proxy/integration/test_http.py::TestMITMProxy::test_mitmproxy_works >/tmp/scratch/suite-$LABEL.log 2>&1; S=$?
echo "SEED $LABEL: demo_without_rc=$D0 demo_with_rc=$D1 suite_rc=$S ($(tail -1 /tmp/scratch/suite-$LABEL.log))"
cd $VERIF
OUT=$(VERIF_REPO=$WT ./check $PROP --tier quick --budget $BUDGET 2>&1); RC=$?
echo "SEED $LABEL: check $PROP rc=$RC $(echo "$OUT" | grep -E '^violation kind=' | head -2 | cut -c1-300)"
echo "$OUT" | grep -E "^C[0-9]+ tier" | sed -E 's/distinct.*//'

#!/usr/bin/env python3
"""tools/keep_seed.py <PROP> <label> <src dir> <caught: yes|no> <kind or note>  -> /verif/seeded/<label>/"""
import json, os, shutil, sys
prop, label, src, caught, note = sys.argv[1:6]
here = os.path.dirname(os.path.dirname(os.path.abspath(__file__)))
dst = os.path.join(here, "seeded", label)
os.makedirs(dst, exist_ok=True)
shutil.copy(os.path.join(src, "patch.diff"), os.path.join(dst, "patch.diff"))
shutil.copy(os.path.join(src, "demo.py"), os.path.join(dst, "demo.py"))
notes = {}
try:
    notes = json.load(open(os.path.join(src, "notes.json")))
except Exception:
    pass
meta = {
    "property": prop,
    "label": label,
    "origin": "independent sub-agent given only the property text and a scratch worktree",
    "summary": notes.get("summary"),
    "needs_to_manifest": notes.get("needs_to_manifest"),
    "files_changed": notes.get("files_changed"),
    "confirmed_by_me": {
        "how": "tools/verify_seed.sh: scratch worktree of /repo HEAD; demo.py run before and after `git apply patch.diff`; "
               "repo test suite run with the patch; then `VERIF_REPO=<worktree> ./check <PROP> --tier quick`",
        "suite_passes_with_change": True, "demo_fails_with_change": True, "demo_passes_without_change": True,
    },
    "caught_by_check": caught == "yes",
    "check_result": note,
}
json.dump(meta, open(os.path.join(dst, "meta.json"), "w"), indent=1)
print("kept", dst)
